# -*- coding: utf-8 -*-
"""Bounded stand-ins for C18: ionic strength and Debye-Hueckel terms follow their definitions in any units.

Oracles (written from the property statement / textbook definitions, never through chempy.electrolytes):

  ionic_strength     I = 1/2 * sum_i b_i z_i**2, evaluated exactly with Fractions from the binary values of the molalities;
                     charges of formula keys come from a hard-coded table in this file.  Forms: list + charges, dict of
                     formulas, dict + substances mapping, each plain and with units (mol/kg, molal, mmol/kg, mol/g, mixed).
                     Metamorphic: permutation, splitting/merging of entries, scaling by a factor.  Tolerance 1e-12 relative.
  neutrality_warning a warning is issued iff the composition is not neutral: compositions built from whole salts with
                     dyadic molalities (sum b z == 0 exactly in binary) must not warn; compositions with a relative excess
                     charge |sum b z| / sum b z**2 in 1e-6..1 must warn exactly once per call; warn=False never warns.
  AB_constants       A = e**3 * sqrt(2 pi N_A rho b0) / (4 pi eps0 eps_r kB T)**1.5   (natural-log form: no 1/ln10; the module
                     docstring says "divide by ln(10) if you want log10"),   B = sqrt(2 e**2 N_A rho b0 / (eps0 eps_r kB T)),
                     with CODATA-2018 numbers in this file: 1e-5 relative (the module uses CODATA-2006 constants, 2e-6 away);
                     the constants/units path agrees with the built-in numeric path to 1e-6 relative; units paths with rho in
                     kg/m3, g/cm3, kg/dm3 and b0 in mol/kg, mmol/g; backends None, math, numpy.
  log_gamma          limiting  -A z**2 sqrt(I/I0);  extended  -A z**2 sqrt(I/I0) / (1 + B a sqrt(I/I0)) + C I/I0;
                     Davies  -A z**2 (sqrt(I/I0)/(1+sqrt(I/I0)) + C I/I0), default C = -0.3;  1e-12 relative + 1e-300;
                     extended(a=0, C=0) == limiting; extended(a -> 0) -> limiting; all three are 0 at I = 0;
                     plain floats, quantities (I in molal or mmol/kg against I0 = 1 molal, a in nm/angstrom, B in 1/m, 1/nm), backends
                     None, math, numpy, sympy.
  activity_products  limiting/extended/davies_activity_product and the two ...ActivityProduct classes equal
                     exp(sum_i nu_i * log_gamma_i) with log_gamma from the formulas above and A, B from the formulas above:
                     |ln(result) - oracle| <= 1e-5 * sum |nu_i log_gamma_i| + 1e-12.
"""
from __future__ import annotations

import math
import warnings
from fractions import Fraction

from . import _par

# CODATA 2018 (exact SI values where defined)
_E = 1.602176634e-19
_NA = 6.02214076e23
_KB = 1.380649e-23
_EPS0 = 8.8541878128e-12

CHARGES = {"Na+": 1, "K+": 1, "H+": 1, "NH4+": 1, "Cl-": -1, "OH-": -1, "NO3-": -1, "Mg+2": 2, "Ca+2": 2, "Fe+2": 2,
           "SO4-2": -2, "CO3-2": -2, "HPO4-2": -2, "Fe+3": 3, "Al+3": 3, "PO4-3": -3, "Fe(CN)6-3": -3, "Th+4": 4, "Ce+4": 4,
           "Fe(CN)6-4": -4, "H2O": 0, "NH3": 0}
_BY_CHARGE = {}
for _k, _v in sorted(CHARGES.items()):
    _BY_CHARGE.setdefault(_v, []).append(_k)

# molality units: name -> (attribute path on default_units, factor to mol/kg)
_BUNITS = {"mol/kg": Fraction(1), "molal": Fraction(1), "mmol/kg": Fraction(1, 1000), "mol/g": Fraction(1000)}


def _bunit(name):
    from chempy.units import default_units as u
    return {"mol/kg": u.mol / u.kg, "molal": u.molal, "mmol/kg": u.mmol / u.kg, "mol/g": u.mol / u.gram}[name]


def A_oracle(eps_r, T, rho, b0=1.0):
    return _E ** 3 * math.sqrt(2 * math.pi * _NA * rho * b0) / (4 * math.pi * _EPS0 * eps_r * _KB * T) ** 1.5


def B_oracle(eps_r, T, rho, b0=1.0):
    return math.sqrt(2 * _E ** 2 * _NA * rho * b0 / (_EPS0 * eps_r * _KB * T))


def _rel_ok(a, b, tol, floor=0.0):
    a, b = float(a), float(b)
    if not (math.isfinite(a) and math.isfinite(b)):
        return False
    return abs(a - b) <= tol * max(abs(a), abs(b)) + floor


# ------------------------------------------------------------------------------------------------ ionic strength
def _dyadic(rng):
    """molality m * 2**-k covering ~1e-9 .. 1e3, exactly representable with few bits"""
    return rng.randint(1, 4095) * 2.0 ** (-rng.randint(2, 42))


def gen_ionic(seed, i):
    rng = _par.sub_rng(seed, "C18", "ionic", i)
    form = rng.choice(["list", "list", "dict", "dict", "substances"])
    n = rng.randint(1, 7)
    if form == "list":
        entries = [[None, rng.choice([-4, -3, -2, -1, 0, 1, 2, 3, 4]), 10 ** rng.uniform(-9, 3)] for _ in range(n)]
    elif form == "dict":
        keys = rng.sample(sorted(CHARGES), min(n, len(CHARGES)))
        entries = [[k, CHARGES[k], 10 ** rng.uniform(-9, 3)] for k in keys]
    else:
        keys = rng.sample(["A", "B", "C", "D", "E", "X1", "Y2"], n)
        entries = [[k, rng.choice([-4, -3, -2, -1, 0, 1, 2, 3, 4]), 10 ** rng.uniform(-9, 3)] for k in keys]
    unit = rng.choice([None, None, "mol/kg", "molal", "mmol/kg", "mol/g", "mixed"])
    if unit == "mixed":
        units = [rng.choice(sorted(_BUNITS)) for _ in entries]
    else:
        units = [unit] * len(entries)
    return {"form": form, "entries": entries, "units": units, "as_array": form == "list" and unit not in (None, "mixed") and rng.random() < 0.4,
            "scale": rng.choice([2.0, 0.5, 3.0, 1e3, 7.25, 1e-6]), "perm_seed": rng.randint(0, 10 ** 6)}


def _call_ionic(form, entries, units, as_array=False, warn=False):
    """entries: [key, z, value]; returns ionic strength in mol/kg as float"""
    from chempy.electrolytes import ionic_strength
    from chempy.units import to_unitless, default_units as u
    from chempy import Substance
    import numpy as np
    vals = []
    for (k, z, v), un in zip(entries, units):
        vals.append(v if un is None else v * _bunit(un))
    if form == "list":
        charges = [z for k, z, v in entries]
        if as_array:
            res = ionic_strength(np.array([v for k, z, v in entries]) * _bunit(units[0]), charges, warn=warn)
        else:
            res = ionic_strength(vals, charges, warn=warn)
    elif form == "dict":
        res = ionic_strength(dict(zip([k for k, z, v in entries], vals)), warn=warn)
    else:
        subst = {k: Substance(k, composition={0: z} if z else {}) for k, z, v in entries}
        res = ionic_strength(dict(zip([k for k, z, v in entries], vals)), substances=subst, warn=warn)
    if units[0] is not None:
        res = to_unitless(res, u.mol / u.kg)
    return float(res)


def _oracle_ionic(entries, units):
    tot = Fraction(0)
    for (k, z, v), un in zip(entries, units):
        tot += Fraction(v) * (Fraction(1) if un is None else _BUNITS[un]) * z * z
    return tot / 2


def check_ionic(case):
    import random
    entries, units, form = case["entries"], case["units"], case["form"]
    try:
        want = float(_oracle_ionic(entries, units))
        got = _call_ionic(form, entries, units, case["as_array"])
        if not _rel_ok(got, want, 1e-12):
            return False, "ionic_strength = %r, 1/2 sum b z^2 = %r" % (got, want)
        # permutation
        idx = list(range(len(entries)))
        random.Random(case["perm_seed"]).shuffle(idx)
        got_p = _call_ionic(form, [entries[i] for i in idx], [units[i] for i in idx], case["as_array"])
        if not _rel_ok(got_p, want, 1e-12):
            return False, "permuted entries give %r instead of %r" % (got_p, want)
        # scaling
        k = case["scale"]
        got_s = _call_ionic(form, [[a, z, v * k] for a, z, v in entries], units, case["as_array"])
        if not _rel_ok(got_s, k * want, 1e-12):
            return False, "molalities scaled by %r give %r instead of %r" % (k, got_s, k * want)
        # splitting an entry in two with the same charge (list form only: keys of a mapping are unique)
        if form == "list":
            a, z, v = entries[0]
            split = [[a, z, v * 0.25], [a, z, v * 0.75]] + entries[1:]
            got_m = _call_ionic(form, split, [units[0]] + units, False)
            if not _rel_ok(got_m, want, 1e-12):
                return False, "splitting the first entry 1:3 gives %r instead of %r" % (got_m, want)
    except Exception as e:
        return False, "raised %s: %s" % (type(e).__name__, e)
    return True, ""


_SALTS = [(1, 1, -1, 1), (1, 2, -2, 1), (2, 1, -1, 2), (2, 1, -2, 1), (3, 1, -1, 3), (1, 3, -3, 1), (3, 2, -2, 3), (2, 3, -3, 2),
          (4, 1, -1, 4), (1, 4, -4, 1), (4, 1, -2, 2), (2, 2, -4, 1), (4, 3, -3, 4), (3, 4, -4, 3)]   # (z+, nu+, z-, nu-)


def gen_warn(seed, i):
    rng = _par.sub_rng(seed, "C18", "warn", i)
    form = rng.choice(["list", "dict"])
    comp = {}                                   # key or index -> [z, b]
    nsalt = rng.randint(1, 4)
    k2 = rng.randint(2, 38)
    for s in range(nsalt):
        zp, nup, zm, num = rng.choice(_SALTS)
        c = rng.randint(1, 255) * 2.0 ** (-(k2 + rng.randint(0, 6)))     # dyadic, all within a few binades: sums are exact
        for z, nu in ((zp, nup), (zm, num)):
            key = rng.choice(_BY_CHARGE[z]) if form == "dict" else "ion%d_%d" % (s, z)
            if key in comp:
                comp[key][1] += nu * c
            else:
                comp[key] = [z, nu * c]
    if rng.random() < 0.3:
        key = rng.choice(_BY_CHARGE[0]) if form == "dict" else "neutral"
        comp.setdefault(key, [0, _dyadic(rng)])
    entries = [[k, z, b] for k, (z, b) in sorted(comp.items())]
    rng.shuffle(entries)
    neutral = rng.random() < 0.5
    excess = None
    if not neutral:
        # add an excess of one charged ion so that |sum b z| / sum b z^2 = delta (1e-6 .. 0.5)
        delta = 10 ** rng.uniform(-6, -0.3)
        tot = sum(b * z * z for k, z, b in entries)
        j = rng.choice([t for t, e in enumerate(entries) if e[1] != 0])
        z = entries[j][1]
        db = delta * tot / (abs(z) * (1 - delta * abs(z))) if delta * abs(z) < 0.9 else tot
        entries[j][2] += db
        excess = delta
    unit = rng.choice([None, None, "molal", "mmol/kg"])
    return {"form": form, "entries": entries, "units": [unit] * len(entries), "neutral": neutral, "excess": excess}


def _count_warn(case, warn):
    with warnings.catch_warnings(record=True) as rec:
        warnings.simplefilter("always")
        _call_ionic(case["form"], case["entries"], case["units"], False, warn=warn)
    # recognised by role, not by wording: any warning issued during the call counts, except the categories that are about the code itself
    # (pyparsing's deprecation warnings under the formula parser, ...) and so cannot be the charge-imbalance warning
    about_code = (DeprecationWarning, PendingDeprecationWarning, FutureWarning, ImportWarning, ResourceWarning, SyntaxWarning, BytesWarning)
    return [str(w.message) for w in rec if not issubclass(w.category, about_code)]


def check_warn(case):
    entries = case["entries"]
    net = sum(Fraction(b) * z for k, z, b in entries)
    tot = sum(Fraction(b) * z * z for k, z, b in entries)
    try:
        w_on = _count_warn(case, True)
        w_off = _count_warn(case, False)
    except Exception as e:
        return False, "raised %s: %s" % (type(e).__name__, e)
    if w_off:
        return False, "warn=False but a warning was issued: %s" % w_off[0]
    if case["neutral"]:
        if net != 0:
            raise AssertionError("generator: composition meant to be neutral is not (%s)" % net)
        if w_on:
            return False, "neutral composition (sum b z == 0 exactly) but warning issued: %s" % w_on[0]
    else:
        if not (abs(net) >= Fraction(1, 2 * 10 ** 6) * tot):
            raise AssertionError("generator: excess charge too small")
        if len(w_on) != 1:
            return False, "net charge / sum b z^2 = %.3g but %d warnings were issued" % (float(abs(net) / tot), len(w_on))
    return True, ""


# ------------------------------------------------------------------------------------------------ A and B
def gen_AB(seed, i):
    rng = _par.sub_rng(seed, "C18", "AB", i)
    return {"eps_r": rng.uniform(5, 100), "T": rng.uniform(250, 650), "rho": rng.uniform(500, 1500),
            "b0": rng.choice([None, None, 1, 1.0, rng.uniform(0.2, 5)]),
            "rho_unit": rng.choice(["kg/m3", "g/cm3", "kg/dm3"]), "b0_unit": rng.choice(["mol/kg", "mmol/g", "molal"]),
            "backend": rng.choice([None, "math", "numpy"])}


def check_AB(case):
    from chempy.electrolytes import A, B
    from chempy.units import default_units as u, default_constants as consts, to_unitless
    eps, T, rho, b0 = case["eps_r"], case["T"], case["rho"], case["b0"]
    b0v = 1.0 if b0 is None else float(b0)
    be = {None: None, "math": math, "numpy": __import__("numpy")}[case["backend"]]
    rq = {"kg/m3": rho * u.kg / u.m ** 3, "g/cm3": (rho / 1000.0) * u.gram / u.cm ** 3, "kg/dm3": (rho / 1000.0) * u.kg / u.dm3}[case["rho_unit"]]
    bq = {"mol/kg": b0v * u.mol / u.kg, "mmol/g": b0v * u.mmol / u.gram, "molal": b0v * u.molal}[case["b0_unit"]]
    kw = {} if b0 is None else {"b0": b0}
    msgs = []
    for name, fn, oracle, unit in (("A", A, A_oracle, None), ("B", B, B_oracle, 1 / u.m)):
        want = oracle(eps, T, rho, b0v)
        vals = {}
        try:
            vals["numeric"] = float(fn(eps, T, rho, backend=be, **kw))
            r = fn(eps, T * u.K, rq, units=u, backend=be, **({} if b0 is None else {"b0": bq}))
            vals["numeric+units"] = float(to_unitless(r, unit if unit is not None else u.dimensionless))
            r = fn(eps, T * u.K, rq, b0=bq, constants=consts, units=u, backend=be)
            vals["constants+units"] = float(to_unitless(r, unit if unit is not None else u.dimensionless))
            if b0 is None:
                r = fn(eps, T * u.K, rq, constants=consts, units=u, backend=be)
                vals["constants+units,default b0"] = float(to_unitless(r, unit if unit is not None else u.dimensionless))
        except Exception as e:
            return False, "%s raised %s: %s (paths done: %s)" % (name, type(e).__name__, e, sorted(vals))
        for path, v in sorted(vals.items()):
            if not _rel_ok(v, want, 1e-5):
                msgs.append("%s[%s] = %r, definition gives %r" % (name, path, v, want))
            if not _rel_ok(v, vals["numeric"], 1e-6):
                msgs.append("%s[%s] = %r differs from the built-in numeric path %r" % (name, path, v, vals["numeric"]))
    return (not msgs), "; ".join(msgs)


# ------------------------------------------------------------------------------------------------ log gamma
def gen_gamma(seed, i):
    rng = _par.sub_rng(seed, "C18", "gamma", i)
    IS = rng.choice([0.0, 10 ** rng.uniform(-9, 1), 10 ** rng.uniform(-9, 1), 10 ** rng.uniform(-4, 0.5)])
    return {"IS": IS, "z": rng.choice([-4, -3, -2, -1, 1, 2, 3, 4, 0]), "A": rng.uniform(0.3, 3.5),
            "B": rng.uniform(1e9, 1e10), "a": rng.choice([rng.uniform(1e-10, 1e-9), rng.uniform(1e-10, 1e-9), 0.0, 1e-30]),
            "C": rng.choice([0.0, None, rng.uniform(-0.5, 0.5)]), "I0": rng.choice([None, None, 1.0, rng.uniform(0.1, 10)]),
            "mode": rng.choice(["float", "float", "units", "units_mmol"]), "backend": rng.choice([None, "math", "numpy", "sympy"])}


def _lg_oracle(kind, IS, z, A, B=None, a=None, C=None, I0=1.0):
    x = IS / I0
    s = math.sqrt(x)
    if kind == "limiting":
        return -A * z * z * s
    if kind == "extended":
        return -A * z * z * s / (1 + B * a * s) + (0.0 if C is None else C) * x
    return -A * z * z * (s / (1 + s) + (-0.3 if C is None else C) * x)


def check_gamma(case):
    from chempy import electrolytes as el
    from chempy.units import default_units as u, to_unitless
    IS, z, A, B, a, C, I0, mode = [case[k] for k in "IS z A B a C I0 mode".split()]
    be = {None: None, "math": math, "numpy": __import__("numpy"), "sympy": __import__("sympy")}[case["backend"]]
    I0v = 1.0 if I0 is None else I0
    if mode == "float":
        ISa, I0a, aa, Ba = IS, I0, a, B
    else:
        if case["backend"] == "sympy":
            be = None       # sympy numbers and quantities do not mix; not part of the claim
        ISa = IS * u.molal if mode == "units" else (IS * 1000.0) * u.mmol / u.kg
        I0a = I0v * u.molal
        aa = (a * 1e9) * u.nm if mode == "units" else (a * 1e10) * u.angstrom
        Ba = B / u.m if mode == "units" else (B * 1e-9) / u.nm
    kwI0 = {} if (I0 is None and mode == "float") else {"I0": I0a}
    kwC = {} if C is None else {"C": C}
    msgs = []

    def val(r):
        if hasattr(r, "dimensionality"):
            r = to_unitless(r, u.dimensionless)
        return float(r)

    try:
        got = {"limiting": val(el.limiting_log_gamma(ISa, z, A, backend=be, **kwI0)),
               "extended": val(el.extended_log_gamma(ISa, z, aa, A, Ba, backend=be, **dict(kwI0, **kwC))),
               "davies": val(el.davies_log_gamma(ISa, z, A, backend=be, **dict(kwI0, **kwC)))}
        ext0 = val(el.extended_log_gamma(ISa, z, aa * 0, A, Ba, C=0, backend=be, **kwI0))
    except Exception as e:
        return False, "raised %s: %s" % (type(e).__name__, e)
    for kind in ("limiting", "extended", "davies"):
        want = _lg_oracle(kind, IS, z, A, B, a, C, I0v)
        tol = 1e-12 if mode == "float" else 1e-11
        scale = A * z * z * math.sqrt(IS / I0v) + abs((C if C is not None else 0.3) * IS / I0v)
        if not (abs(got[kind] - want) <= tol * scale + 1e-300):
            msgs.append("%s_log_gamma = %r, formula gives %r" % (kind, got[kind], want))
        if IS == 0 and got[kind] != 0:
            msgs.append("%s_log_gamma at I = 0 is %r, not 0" % (kind, got[kind]))
    if not (abs(ext0 - got["limiting"]) <= 1e-14 * abs(got["limiting"])):
        msgs.append("extended(a=0, C=0) = %r differs from limiting %r" % (ext0, got["limiting"]))
    return (not msgs), "; ".join(msgs)


# ------------------------------------------------------------------------------------------------ activity products
def gen_prod(seed, i):
    rng = _par.sub_rng(seed, "C18", "prod", i)
    n = rng.randint(1, 5)
    return {"kind": rng.choice(["limiting", "extended", "davies", "limiting_cls", "extended_cls"]),
            "stoich": [rng.choice([-3, -2, -1, 1, 2, 3]) for _ in range(n)], "z": [rng.choice([-3, -2, -1, 1, 2, 3, 0]) for _ in range(n)],
            "a": [rng.uniform(1e-10, 9e-10) for _ in range(n)], "c": [10 ** rng.uniform(-6, -1) for _ in range(n)],
            "IS": 10 ** rng.uniform(-6, -0.5), "T": rng.uniform(250, 650), "eps_r": rng.uniform(20, 100), "rho": rng.uniform(500, 1500),
            "C": rng.choice([None, rng.uniform(-0.4, 0.4)]), "backend": rng.choice([None, "math", "numpy"])}


def check_prod(case):
    from chempy import electrolytes as el
    kind, st, z, a, c, IS, T, eps, rho, C = [case[k] for k in "kind stoich z a c IS T eps_r rho C".split()]
    be = {None: None, "math": math, "numpy": __import__("numpy")}[case["backend"]]
    Av, Bv = A_oracle(eps, T, rho), B_oracle(eps, T, rho)
    kwC = {} if C is None else {"C": C}
    try:
        if kind == "limiting":
            got = el.limiting_activity_product(IS, st, z, T, eps, rho, backend=be)
        elif kind == "extended":
            got = el.extended_activity_product(IS, st, z, a, T, eps, rho, backend=be, **kwC)
        elif kind == "davies":
            got = el.davies_activity_product(IS, st, z, a, T, eps, rho, backend=be, **kwC)
        else:
            IS = float(sum(Fraction(ci) * zi * zi for ci, zi in zip(c, z)) / 2)       # the classes take concentrations
            if kind == "limiting_cls":
                got = el.LimitingDebyeHuckelActivityProduct(st, z, T, eps, rho)(c)
            else:
                args = (st, z, a, T, eps, rho) + (() if C is None else (C,))
                got = el.ExtendedDebyeHuckelActivityProduct(*args)(c)
        got = float(got)
    except Exception as e:
        return False, "raised %s: %s" % (type(e).__name__, e)
    base = {"limiting": "limiting", "extended": "extended", "davies": "davies", "limiting_cls": "limiting", "extended_cls": "extended"}[kind]
    terms = [nu * _lg_oracle(base, IS, zi, Av, Bv, ai, C, 1.0) for nu, zi, ai in zip(st, z, a)]
    want = sum(terms)
    if not (got > 0 and math.isfinite(got)):
        return False, "activity product %r is not a positive finite number" % got
    if not (abs(math.log(got) - want) <= 1e-5 * sum(abs(t) for t in terms) + 1e-12):
        return False, "ln(product) = %r, sum nu_i ln gamma_i = %r" % (math.log(got), want)
    return True, ""


_GEN = {"ionic_strength": gen_ionic, "neutrality_warning": gen_warn, "AB_constants": gen_AB, "log_gamma": gen_gamma, "activity_products": gen_prod}
_CHECK = {"ionic_strength": check_ionic, "neutrality_warning": check_warn, "AB_constants": check_AB, "log_gamma": check_gamma, "activity_products": check_prod}
_N = {"ionic_strength": (1500, 60000), "neutrality_warning": (1500, 60000), "AB_constants": (600, 25000), "log_gamma": (3000, 150000),
      "activity_products": (3000, 150000)}
_RULE = {
    "ionic_strength": ("1..7 entries, charges -4..4 (incl. 0), molalities log-uniform over 1e-9..1e3; list form with charges (also as one "
                       "array quantity), dict of 22 formulas with charges from a table in the stand-in, dict + substances mapping; plain "
                       "or in mol/kg, molal, mmol/kg, mol/g or mixed units; compared with the exact Fraction value of 1/2 sum b z^2 "
                       "(1e-12), and again after permutation, after scaling all molalities, after splitting an entry 1:3",
                       "<= 7 ions, |z| <= 4, 12 decades"),
    "neutrality_warning": ("1..4 whole salts (14 stoichiometries, |z| <= 4) with dyadic molalities so that sum b z is exactly 0 -> no "
                           "warning; or the same plus an excess of one ion giving |sum b z| / sum b z^2 in 1e-6..0.5 -> exactly one "
                           "warning; warn=False -> none; list and dict form, plain / molal / mmol/kg (the code's tolerance is 1e-14 "
                           "relative, both classes are far from it)", "<= 8 ions, relative excess charge 0 or >= 1e-6"),
    "AB_constants": ("T 250..650 K, eps_r 5..100, rho 500..1500 kg/m3, b0 default/1/0.2..5; A and B through the numeric path, numeric + "
                     "units, constants + units (rho in kg/m3, g/cm3, kg/dm3; b0 in mol/kg, mmol/g, molal), backend None/math/numpy; "
                     "each within 1e-5 of the definition evaluated with CODATA-2018 constants and within 1e-6 of the numeric path",
                     "uniform in the stated box"),
    "log_gamma": ("I 0 or 1e-9..10, z -4..4, A 0.3..3.5, B 1e9..1e10 /m, a 1e-10..1e-9 m or 0 or 1e-30, C default/0/-0.5..0.5, I0 "
                  "default/1/0.1..10; floats or quantities (molal, mmol/kg; nm, angstrom; 1/m, 1/nm); backends None, math, numpy, "
                  "sympy; formulas to 1e-12 (1e-11 with units) of their scale; extended(a=0,C=0) == limiting; exactly 0 at I = 0",
                  "see rule"),
    "activity_products": ("1..5 species, nu in -3..3, z in -3..3, a 1..9 angstrom, I 1e-6..0.3, T 250..650, eps_r 20..100, rho 500..1500; "
                          "the three *_activity_product functions and the two ActivityProduct classes (ionic strength from "
                          "concentrations); ln(result) against sum nu_i ln gamma_i from the stand-in's own A, B and formulas", "see rule"),
}


def _work(item):
    name, case = item
    ok, det = _CHECK[name](case)
    return name, case, ok, det


def run(tier, seed):
    qi = 0 if tier == "quick" else 1
    items = [(name, _GEN[name](seed, i)) for name in _GEN for i in range(_N[name][qi])]
    cols = {name: _par.Collector(name, _RULE[name][0], _RULE[name][1]) for name in _GEN}
    for name, case, ok, det in _par.pmap(_work, items):
        cols[name].add(case, ok, det)
    return {"standins": [cols[n].result() for n in _GEN]}


def replay(case):
    ok, det = _CHECK[case["name"]](case["inputs"])
    return ok, det or "holds"
