"""C06  Integrated kinetics reproduce exact solutions and stay physically admissible."""
from pyvc.api import harness
from pyvc import spec as SP
from pyvc.sym import Sym

META = {
    "explanation": "the advertised explicit-Euler step: the closure max_euler_step_cb of get_odesys is proved safe for ANY right-hand side vector and any state inside [0, upper bound]: the returned h is non-negative, at most 1, and y + h*f stays inside [0, upper bound] component-wise (nlsat); the bound itself is the elemental upper bound of C15 (used through its contract). Agreement of the delegated integrator with exact solutions is not decidable by contracts: bounded stand-in (first-order networks vs matrix exponential, bimolecular steps vs closed forms).",
    "trusted_base": ["assumed contract 5.6 for odesys.pre_process / to_arrays / f_cb (identity pre-processing without units, f_cb returns the right-hand side vector)", "contract of ReactionSystem.upper_conc_bounds (proved in C15)"],
    "not_decided": ["accuracy of CVODE/LSODA/scipy integration against exact solutions (adaptive numerical integrator, IEEE arithmetic): bounded only", "non-negativity of integrated trajectories beyond tolerance: bounded only"],
    "assumptions": ["three- and four-substance shapes for the step-size proof (the loop is over the components; each component's clause is independent)"],
}
ODE = "chempy.kinetics.ode"


def _euler(n):
    @harness("C06", "max_euler_step_cb.n%d" % n, functions=[ODE + ":get_odesys.<locals>.max_euler_step_cb"], kind="shape-bounded", div_mode="fork", samples=0, max_paths=3000)
    def _(v):
        from chempy.kinetics.ode import get_odesys
        from chempy.chemistry import Reaction, Substance
        from chempy.reactionsystem import ReactionSystem
        from contracts.C04 import FakeSymbolicSys
        names = ["A", "B", "C", "D"][:n]
        subs = [Substance(s, composition={1: 1}) for s in names]
        rsys = ReactionSystem([Reaction({"A": 1}, {"B": 1}, 1.0, checks=())], subs, checks=())
        ys = [v.real("y_" + s, lo=0, hi=100) for s in names]
        ubs = [v.real("ub_" + s, lo=0, hi=1000) for s in names]
        fs = [v.real("f_" + s, lo=-1e3, hi=1e3) for s in names]
        v.assume(SP.conj([y <= ub for y, ub in zip(ys, ubs)]))
        v.contract(ReactionSystem.upper_conc_bounds, "upper_conc_bounds", None, lambda v_, self, init_concs, **kw: list(ubs))

        class Sys(FakeSymbolicSys):
            def f_cb(self, x, y, p):
                return list(fs)
        odesys, extra = v.call(get_odesys, rsys, SymbolicSys=Sys)
        cb = extra["max_euler_step_cb"]
        v.prove("callback_offered_when_compositions_known", cb is not None)
        h = v.call(cb, 0.0, ys)
        v.prove_nl("step_is_non_negative", h >= 0)
        v.prove_nl("step_at_most_one", h <= 1)
        for y, ub, f, s in zip(ys, ubs, fs, names):
            v.prove_nl("stays_non_negative_" + s, y + h * f >= 0)
            v.prove_nl("stays_below_bound_" + s, y + h * f <= ub)
    return _


for _n in (2, 3, 4):
    _euler(_n)


@harness("C06", "max_euler_step_cb.no_stale_bounds", functions=[ODE + ":get_odesys.<locals>.max_euler_step_cb"], kind="shape-bounded", div_mode="fork", samples=0, max_paths=3000)
def _(v):
    """the callback is used repeatedly on one odesys: the second call must use the bounds and right-hand side of ITS state"""
    from chempy.kinetics.ode import get_odesys
    from chempy.chemistry import Reaction, Substance
    from chempy.reactionsystem import ReactionSystem
    from contracts.C04 import FakeSymbolicSys
    names = ["A", "B"]
    subs = [Substance(s, composition={1: 1}) for s in names]
    rsys = ReactionSystem([Reaction({"A": 1}, {"B": 1}, 1.0, checks=())], subs, checks=())
    state = {"call": 0}
    ys = [[v.real("y%d_%s" % (c, s), lo=0, hi=100) for s in names] for c in (0, 1)]
    ubs = [[v.real("ub%d_%s" % (c, s), lo=0, hi=1000) for s in names] for c in (0, 1)]
    fs = [[v.real("f%d_%s" % (c, s), lo=-1e3, hi=1e3) for s in names] for c in (0, 1)]
    v.assume(SP.conj([y <= ub for c in (0, 1) for y, ub in zip(ys[c], ubs[c])]))

    def bounds(v_, self, init_concs, **kw):
        c = 0 if init_concs is ys[0] else 1
        return list(ubs[c])
    v.contract(ReactionSystem.upper_conc_bounds, "upper_conc_bounds", None, bounds)

    class Sys(FakeSymbolicSys):
        def f_cb(self, x, y, p):
            return list(fs[0 if y is ys[0] else 1])
    odesys, extra = v.call(get_odesys, rsys, SymbolicSys=Sys)
    cb = extra["max_euler_step_cb"]
    v.call(cb, 0.0, ys[0])
    h = v.call(cb, 0.0, ys[1])
    v.prove_nl("second_call.step_is_non_negative", h >= 0)
    for y, ub, f, s in zip(ys[1], ubs[1], fs[1], names):
        v.prove_nl("second_call.stays_non_negative_" + s, y + h * f >= 0)
        v.prove_nl("second_call.stays_below_bound_" + s, y + h * f <= ub)


@harness("C06", "no_callback_without_compositions", functions=[ODE + ":get_odesys"], kind="shape-bounded", samples=0)
def _(v):
    from chempy.kinetics.ode import get_odesys
    from chempy.chemistry import Reaction, Substance
    from chempy.reactionsystem import ReactionSystem
    from contracts.C04 import FakeSymbolicSys
    rsys = ReactionSystem([Reaction({"A": 1}, {"B": 1}, v.real("k", lo=0, hi=9), checks=())], [Substance("A"), Substance("B")], checks=())
    odesys, extra = v.call(get_odesys, rsys, SymbolicSys=FakeSymbolicSys)
    v.prove("no_bound_no_callback", extra["max_euler_step_cb"] is None and extra["linear_dependencies"] is None)
