"""C04  Generated ODE system is exactly the kinetic model of the reaction system."""
from collections import OrderedDict

from pyvc.api import harness
from pyvc import spec as SP
from pyvc.sym import Sym

META = {
    "explanation": "get_odesys is executed symbolically up to and through SymbolicSys.from_callback (assumed contract 5.6, given as a stand-in class through the function's own SymbolicSys parameter, no patching): the closure dydt is proved to return, for every substance in substance order, sum_r net_r(s) * k_r * prod c^nu (+ feed terms when cstr), with names = substance names, param_names = parameter keys (plus registered unique keys when parameters are kept free), linear invariants = composition_balance_vectors; binding each free unique key to the value _reg_unique stored reproduces the inlined right-hand side exactly; rate_exprs_cb receives one expression per reaction from the same rate expressions; passive and active substitutions only change which symbols are free; reserved key 'time' is refused; _create_odesys pairs (substance symbol, rate) in substance order; a rate law that is not mass action enters as it is (no concentration product); feed (cstr) together with free constants, substituted feed concentrations and caller-chosen keys; quantities bound through substitutions / a constants namespace arrive in registry units; both builders are compared natively (sympy) with one hand-written model per system; a name shared by a constant and a substance / the time is refused or answered in different symbols",
    "trusted_base": ["assumed contract 5.6: SymbolicSys.from_callback(cb, names=, param_names=, dep_by_name, par_by_name) calls cb(indep, {name: dep}, {pname: par}, backend) once, stores exprs[i] = returned[names[i]] and refuses a size mismatch (read in the installed pyodesys source; exercised by the bounded translation validation)"],
    "not_decided": ["what pyodesys does with the expressions afterwards (code generation, integration): bounded translation validation and C06"],
    "assumptions": ["system shapes fixed per harness (catalysts, inactive parts, sources, spectators); rate constants and concentrations symbolic"],
}
ODE = "chempy.kinetics.ode"


class FakeBackend:
    """stands for odesys.be (sympy in the real package): only identity/real arithmetic is needed by chempy's closures"""
    pass


class FakeSymbolicSys:
    """assumed contract 5.6 of pyodesys.symbolic.SymbolicSys (the part chempy relies on)"""
    last = None

    def __init__(self):
        pass

    @classmethod
    def from_callback(cls, cb, ny=None, nparams=None, dep_by_name=False, par_by_name=False, names=None, param_names=(), latex_names=None,
                      linear_invariants=None, linear_invariant_names=None, **kwargs):
        import z3
        self = cls()
        self.names = tuple(names)
        self.param_names = tuple(param_names)
        self.indep = Sym(z3.Real("t"))
        self.dep = tuple(Sym(z3.Real("y_" + n)) for n in self.names)
        self.params = tuple(Sym(z3.Real("p_" + n)) for n in self.param_names)
        self.be = FakeBackend()
        self.kwargs = kwargs
        self.linear_invariants = linear_invariants
        self.linear_invariant_names = linear_invariant_names
        self.latex_names = latex_names
        assert dep_by_name and par_by_name
        ret = cb(self.indep, dict(zip(self.names, self.dep)), dict(zip(self.param_names, self.params)), self.be)
        if len(ret) != len(self.names):
            raise ValueError("Callback returned unexpected (%d) number of expressions: %d" % (len(self.names), len(ret)))
        self.exprs = tuple(ret[n] for n in self.names)
        self.ny = len(self.names)
        cls.last = self
        return self

    def _callback_factory(self, exprs):
        self.cb_exprs = list(exprs)
        return lambda *a: self.cb_exprs

    # identity pre-processing (no units): used by max_euler_step_cb
    def to_arrays(self, x, y, p):
        return [x], y, p

    def pre_process(self, x, y, p):
        return x, y, p

    def __getitem__(self, key):
        return self.dep[self.names.index(key)]


SUBST = ["C", "A", "E", "B", "D"]     # deliberately neither alphabetical nor the order of first appearance in the reactions


def layouts():
    return {
        "two_shared": [(["A", "B"], ["C"], [], []), (["A", "B"], ["B", "C"], [], [])],
        "inactive_mix": [(["A"], ["C"], ["A", "B"], ["C", "D"]), (["A"], ["B"], [], []), (["A", "B"], ["C"], [], [])],
        "source_sink": [([], ["A"], [], []), (["A"], ["B"], [], [])],
    }


def build(v, lays, unique=False, named=False):
    from chempy.chemistry import Reaction, Substance
    from chempy.reactionsystem import ReactionSystem
    from chempy.kinetics.rates import MassAction
    rxns, ds, ks = [], [], []
    for i, (reac, prod, ireac, iprod) in enumerate(lays):
        mk = lambda side, keys: {k: v.int("r%d_%s_%s" % (i, side, k), lo=1, hi=3) for k in keys}
        d = [mk("r", reac), mk("p", prod), mk("ir", ireac), mk("ip", iprod)]
        k = v.real("k%d" % i, lo=0, hi=9)
        if named:
            param = "kk%d" % i
        elif unique:
            param = MassAction([k], unique_keys=("kk%d" % i,))
        else:
            param = k
        rxns.append(Reaction(dict(d[0]), dict(d[1]), param, dict(d[2]) or None, dict(d[3]) or None, checks=()))
        ds.append(d)
        ks.append(k)
    rsys = ReactionSystem(rxns, [Substance(s) for s in SUBST], checks=())
    return rsys, ds, ks


def spec_rhs(ds, ks, conc):
    out = {}
    for s in SUBST:
        tot = 0
        for d, k in zip(ds, ks):
            cp = 1
            for key, nu in d[0].items():
                cp = cp * SP.spow(conc[key], nu)
            net = d[1].get(s, 0) - d[0].get(s, 0) + d[3].get(s, 0) - d[2].get(s, 0)
            tot = tot + net * k * cp
        out[s] = tot
    return out


def _same_names_as_reported(odesys, extra):
    """'parameter names matching parameter keys': the names handed to the ODE system are, EACH ONCE, the parameter keys the answer reports
    (extra['param_keys']) together with the registered unique keys (extra['unique']) -- as SETS: the property fixes no order of the parameters, and
    pyodesys maps values given by name through param_names, whatever their order. (The one thing that IS positional, the units of the parameters
    when a registry is given, is checked by name in get_odesys.unit_registry.parameter_units_follow_the_names.)"""
    names = list(odesys.param_names)
    return len(set(names)) == len(names) and set(names) == set(extra["param_keys"]) | set(extra["unique"])


def _inline(name, lays):
    @harness("C04", "get_odesys.inlined." + name, functions=[ODE + ":get_odesys", ODE + ":get_odesys.<locals>.dydt", ODE + ":get_odesys.<locals>.reaction_rates",
                                                             "chempy.reactionsystem:ReactionSystem.rates"], kind="shape-bounded", samples=0, max_paths=300)
    def _(v):
        from chempy.kinetics.ode import get_odesys
        rsys, ds, ks = build(v, lays)
        odesys, extra = v.call(get_odesys, rsys, SymbolicSys=FakeSymbolicSys)
        conc = dict(zip(odesys.names, odesys.dep))
        rhs = spec_rhs(ds, ks, conc)
        v.prove("one_equation_per_substance_in_substance_order", list(odesys.names) == SUBST and len(odesys.exprs) == len(SUBST))
        v.prove("right_hand_side_is_NT_times_rates", SP.conj([v.eq(e, rhs[s]) for e, s in zip(odesys.exprs, SUBST)]))
        # 'no parameters' = empty collections, whatever their type (a tuple is as good as a list)
        v.prove("no_parameters_when_inlined", len(odesys.param_names) == 0 and len(extra["param_keys"]) == 0 and len(extra["unique"]) == 0)
        # 'no invariant reported': None or an empty collection of vectors / of names
        v.prove("linear_invariants_absent_without_compositions", (odesys.linear_invariants is None or len(odesys.linear_invariants) == 0)
                and (odesys.linear_invariant_names is None or len(odesys.linear_invariant_names) == 0))
        per_rxn = odesys.cb_exprs
        v.prove("rate_exprs_cb_one_per_reaction", len(per_rxn) == len(ds))
        for i, (d, k) in enumerate(zip(ds, ks)):
            cp = 1
            for key, nu in d[0].items():
                cp = cp * SP.spow(conc[key], nu)
            v.prove("rate_exprs_cb_%d" % i, v.eq(per_rxn[i], k * cp))
        # documented: cstr_fr_fc is 'None or (feed-ratio-key, map)' -> without a feed anything false (None, False, ()); no registry -> no units of
        # parameters (None or empty); 'unit_registry' is not a documented key of extra: only if it is there it must say 'none'
        v.prove("no_cstr", (not extra["cstr_fr_fc"]) and extra.get("unit_registry") is None and (extra["p_units"] is None or len(extra["p_units"]) == 0))
    return _


for _n, _l in layouts().items():
    _inline(_n, _l)


def _free(name, lays):
    @harness("C04", "get_odesys.free_params." + name, functions=[ODE + ":get_odesys", ODE + ":get_odesys.<locals>._reg_unique", ODE + ":get_odesys.<locals>.dydt", ODE + ":get_odesys.<locals>.reaction_rates"], kind="shape-bounded", samples=0, max_paths=300)
    def _(v):
        from chempy.kinetics.ode import get_odesys
        rsys, ds, ks = build(v, lays, unique=True)
        odesys, extra = v.call(get_odesys, rsys, include_params=False, SymbolicSys=FakeSymbolicSys)
        uk = ["kk%d" % i for i in range(len(ds))]
        # (the obligation keeps its historical name) the statement does not fix an ORDER of the parameters: exactly the unique keys are parameters,
        # each once, and they are the names the answer reports (parameter keys and registered unique keys) -- see _same_names_as_reported
        v.prove("unique_keys_are_parameters_in_reaction_order", sorted(odesys.param_names) == sorted(uk) and _same_names_as_reported(odesys, extra))
        v.prove("each_key_registered_with_its_own_constant", sorted(extra["unique"].keys()) == sorted(uk) and SP.conj([extra["unique"][u] == k for u, k in zip(uk, ks)]))
        conc = dict(zip(odesys.names, odesys.dep))
        psym = dict(zip(odesys.param_names, odesys.params))
        rhs_free = spec_rhs(ds, [psym[u] for u in uk], conc)
        v.prove("right_hand_side_in_free_symbols", SP.conj([v.eq(e, rhs_free[s]) for e, s in zip(odesys.exprs, SUBST)]))
        # the rates handed to rate_exprs_cb are those of the same model: one per reaction, in the free symbols
        per_rxn = odesys.cb_exprs
        want_rates = []
        for d, u in zip(ds, uk):
            cp = 1
            for key, nu in d[0].items():
                cp = cp * SP.spow(conc[key], nu)
            want_rates.append(psym[u] * cp)
        v.prove("rate_exprs_cb_in_free_symbols", len(per_rxn) == len(ds) and SP.conj([v.eq(r_, w_) for r_, w_ in zip(per_rxn, want_rates)]))
        # binding every registered key to the value stored for it gives the inlined right-hand side
        import z3
        rhs_inl = spec_rhs(ds, ks, conc)
        subs = [(psym[u].e, extra["unique"][u].e) for u in uk]
        v.prove("binding_registered_values_reproduces_inlined_rhs",
                SP.conj([Sym(z3.substitute(e.e, *subs)) == rhs_inl[s] if isinstance(e, Sym) else e == rhs_inl[s] for e, s in zip(odesys.exprs, SUBST)]))
        # the same system with parameters inlined
        ode2, extra2 = v.call(get_odesys, rsys, include_params=True, SymbolicSys=FakeSymbolicSys)
        conc2 = dict(zip(ode2.names, ode2.dep))
        v.prove("include_params_inlines_the_same_values", SP.conj([v.eq(e, spec_rhs(ds, ks, conc2)[s]) for e, s in zip(ode2.exprs, SUBST)]) and list(ode2.param_names) == [])
    return _


for _n, _l in layouts().items():
    _free(_n, _l)


@harness("C04", "get_odesys.named_params_and_substitutions", functions=[ODE + ":get_odesys", ODE + ":get_odesys.<locals>.dydt"], kind="shape-bounded", samples=0, max_paths=300)
def _(v):
    from chempy.kinetics.ode import get_odesys
    from chempy.kinetics.rates import MassAction
    lays = layouts()["two_shared"]
    rsys, ds, ks = build(v, lays, named=True)
    odesys, extra = v.call(get_odesys, rsys, include_params=False, SymbolicSys=FakeSymbolicSys)
    # exactly the two names, each once (no order is part of the statement; the symbols are looked up by name below)
    v.prove("named_keys_become_parameters", sorted(odesys.param_names) == ["kk0", "kk1"] and sorted(extra["unique"]) == ["kk0", "kk1"])
    conc = dict(zip(odesys.names, odesys.dep))
    psym = dict(zip(odesys.param_names, odesys.params))
    v.prove("rhs_in_named_symbols", SP.conj([v.eq(e, spec_rhs(ds, [psym["kk0"], psym["kk1"]], conc)[s]) for e, s in zip(odesys.exprs, SUBST)]))
    # passive substitution: the key is bound to a number and disappears from the parameters
    val = v.real("subst_value", lo=0, hi=9)
    ode3, extra3 = v.call(get_odesys, rsys, include_params=False, substitutions={"kk1": val}, SymbolicSys=FakeSymbolicSys)
    conc3 = dict(zip(ode3.names, ode3.dep))
    p3 = dict(zip(ode3.param_names, ode3.params))
    v.prove("substituted_key_not_a_parameter", list(ode3.param_names) == ["kk0"])
    v.prove("substitution_changes_only_which_symbols_are_free", SP.conj([v.eq(e, spec_rhs(ds, [p3["kk0"], val], conc3)[s]) for e, s in zip(ode3.exprs, SUBST)]))
    out = v.run(get_odesys, rsys, substitutions={"nonexistent": 1.0}, SymbolicSys=FakeSymbolicSys)
    v.prove("unknown_substitution_refused", out.raised(ValueError))
    # the same for a UNIQUE key of a constant that has a value of its own (MassAction([k1], unique_keys=('kk1',))): the substituted value replaces
    # the stored one in both modes, and the key is not a parameter
    rsys_u, ds_u, ks_u = build(v, lays, unique=True)
    o4, x4 = v.call(get_odesys, rsys_u, include_params=False, substitutions={"kk1": val}, SymbolicSys=FakeSymbolicSys)
    p4 = dict(zip(o4.param_names, o4.params))
    v.prove("substituted_unique_key.free.not_a_parameter", list(o4.param_names) == ["kk0"] and "kk1" not in x4["unique"])
    if list(o4.param_names) == ["kk0"]:
        v.prove("substituted_unique_key.free.rhs", SP.conj([v.eq(e, spec_rhs(ds_u, [p4["kk0"], val], dict(zip(o4.names, o4.dep)))[s]) for e, s in zip(o4.exprs, SUBST)]))
    o5, x5 = v.call(get_odesys, rsys_u, include_params=True, substitutions={"kk1": val}, SymbolicSys=FakeSymbolicSys)
    v.prove("substituted_unique_key.inlined.no_parameters", len(o5.param_names) == 0)
    v.prove("substituted_unique_key.inlined.rhs", SP.conj([v.eq(e, spec_rhs(ds_u, [ks_u[0], val], dict(zip(o5.names, o5.dep)))[s]) for e, s in zip(o5.exprs, SUBST)]))


@harness("C04", "get_odesys.cstr_and_invariants", functions=[ODE + ":get_odesys", "chempy.reactionsystem:ReactionSystem.composition_balance_vectors"], kind="shape-bounded", samples=0, max_paths=300)
def _(v):
    from chempy.kinetics.ode import get_odesys
    from chempy.chemistry import Reaction, Substance
    from chempy.reactionsystem import ReactionSystem
    k = v.real("k", lo=0, hi=9)
    a, b = v.int("nu_A", lo=1, hi=3), v.int("nu_B", lo=1, hi=3)
    subs = [Substance("A", composition={1: 2}), Substance("B", composition={1: 1, 0: 0}), Substance("S", composition={8: 1})]
    rsys = ReactionSystem([Reaction({"A": a}, {"B": b}, k, checks=())], subs, checks=())
    odesys, extra = v.call(get_odesys, rsys, cstr=True, SymbolicSys=FakeSymbolicSys)
    y = dict(zip(odesys.names, odesys.dep))
    p = dict(zip(odesys.param_names, odesys.params))
    v.prove("feed_parameters", set(odesys.param_names) == {"feedratio", "fc_A", "fc_B", "fc_S"} and len(odesys.param_names) == 4)
    # (the obligation keeps its historical name) no ORDER of the parameters is part of the statement (in the code it comes from a set: hash dependent,
    # and a maintainer may sort it): what is fixed is that the names handed to the ODE system are, each once, the reported parameter keys and the
    # registered unique keys; the symbols are looked up by name (p[...] above), so that cstr_rhs does not depend on the order either
    v.prove("parameter_names_are_the_reported_keys_then_unique_keys", _same_names_as_reported(odesys, extra), detail=repr(odesys.param_names))
    rate = k * SP.spow(y["A"], a)
    v.prove("cstr_rhs", SP.conj([v.eq(odesys.exprs[0], -a * rate + p["feedratio"] * (p["fc_A"] - y["A"])),
                                 v.eq(odesys.exprs[1], b * rate + p["feedratio"] * (p["fc_B"] - y["B"])),
                                 v.eq(odesys.exprs[2], p["feedratio"] * (p["fc_S"] - y["S"]))]))
    # with a feed nothing is conserved: no vector may be reported as an invariant of this right-hand side
    v.prove("no_linear_invariants_reported_with_a_feed", not odesys.linear_invariants and not odesys.linear_invariant_names)      # None or empty
    # without feed: every reported vector w satisfies  w . rhs == rate * (w . net stoichiometry)  -- zero exactly when the reaction conserves that key
    ode0, extra0 = v.call(get_odesys, rsys, SymbolicSys=FakeSymbolicSys)
    y0 = dict(zip(ode0.names, ode0.dep))
    rate0 = k * SP.spow(y0["A"], a)
    inv = ode0.linear_invariants
    comp = {"A": {1: 2}, "B": {1: 1, 0: 0}, "S": {8: 1}}
    cvec = {key: [comp[s_].get(key, 0) for s_ in "ABS"] for key in (0, 1, 8)}      # the composition vector of each key, from the Substances above
    rows = [list(row) for row in inv] if inv is not None else []
    inv_names = list(ode0.linear_invariant_names or [])
    # every reported vector IS the composition vector of one key, the keys that occur with a non-zero amount (1 and 8) are both there, once, and
    # there is one name per vector; the all-zero vector of key 0 (B spells '0: 0') says nothing: reporting or dropping it are equally good, and the
    # TEXT of the names (str(key), an element symbol, ...) is not part of the property
    v.prove("one_vector_per_composition_key", inv is not None and all(row in list(cvec.values()) for row in rows) and rows.count(cvec[1]) == 1 and rows.count(cvec[8]) == 1
            and len(rows) in (2, 3) and len(inv_names) == len(rows) and len(set(inv_names)) == len(rows), detail="%r %r" % (rows, inv_names))
    for key in (0, 1, 8):
        row = cvec[key] if cvec[key] in rows else [0, 0, 0]       # a vector that is not reported (only allowed for key 0, see above) claims nothing
        lhs = sum(row[j] * ode0.exprs[j] for j in range(3))
        v.prove("vector_of_key_%d_is_conserved_iff_the_reaction_conserves_it" % key, v.eq(lhs, rate0 * (b * comp["B"].get(key, 0) - a * comp["A"].get(key, 0))))


@harness("C04", "get_odesys.cstr_configurations", functions=[ODE + ":get_odesys", ODE + ":get_odesys.<locals>.dydt", ODE + ":get_odesys.<locals>._reg_unique", "chempy.reactionsystem:ReactionSystem.rates"],
         kind="shape-bounded", samples=0, max_paths=300)
def _(v):
    """the feed of a stirred tank together with the other build configurations: d[s]/dt = (N^T r)_s + fr*(fc_s - [s]) for every substance, where
    fr and the fc_s are parameters under the keys the caller chose (default 'feedratio', 'fc_<key>'); keeping the rate constant free adds its key
    to the parameters, substituting a feed concentration removes that key -- the right-hand side changes in nothing else"""
    from chempy.kinetics.ode import get_odesys
    from chempy.kinetics.rates import MassAction
    from chempy.chemistry import Reaction, Substance
    from chempy.reactionsystem import ReactionSystem
    k = v.real("k", lo=0, hi=9)
    a, b = v.int("nu_A", lo=1, hi=3), v.int("nu_B", lo=1, hi=3)
    subs = lambda: [Substance("B"), Substance("A"), Substance("S")]      # S is a spectator: only the feed term
    rsys = ReactionSystem([Reaction({"A": a}, {"B": b}, k, checks=())], subs(), checks=())
    rsys_u = ReactionSystem([Reaction({"A": a}, {"B": b}, MassAction([k], unique_keys=("kf",)), checks=())], subs(), checks=())

    def check(label, o, x, pnames, kc, fr, fc):
        """kc(p), fr(p), fc(p, s): the rate constant, the feed ratio and the feed concentration of s in terms of the parameter symbols"""
        # exactly the expected names, each once, in whatever order (the symbols are looked up by name below), and the same names as the answer reports
        v.prove(label + ".parameters", sorted(o.param_names) == sorted(pnames) and _same_names_as_reported(o, x), detail=repr(o.param_names))
        if sorted(o.param_names) != sorted(pnames):
            return
        y = dict(zip(o.names, o.dep))
        p = dict(zip(o.param_names, o.params))
        rate = kc(p) * SP.spow(y["A"], a)
        net = {"A": -a, "B": b, "S": 0}
        v.prove(label + ".names", list(o.names) == ["B", "A", "S"])
        v.prove(label + ".rhs", SP.conj([v.eq(e, net[s] * rate + fr(p) * (fc(p, s) - y[s])) for e, s in zip(o.exprs, "BAS")]))
        v.prove(label + ".rate_exprs_cb_has_no_feed_term", len(o.cb_exprs) == 1 and v.eq(o.cb_exprs[0], rate))
        v.prove(label + ".nothing_reported_as_conserved", not o.linear_invariants and not o.linear_invariant_names)

    default = ["feedratio", "fc_A", "fc_B", "fc_S"]
    o, x = v.call(get_odesys, rsys_u, cstr=True, include_params=False, SymbolicSys=FakeSymbolicSys)
    check("free_rate_constant", o, x, default + ["kf"], lambda p: p["kf"], lambda p: p["feedratio"], lambda p, s: p["fc_" + s])
    v.prove("free_rate_constant.registered_value", sorted(x["unique"]) == ["kf"] and x["unique"]["kf"] == k)
    feedA = v.real("feed_concentration_of_A", lo=0, hi=9)
    o, x = v.call(get_odesys, rsys, cstr=True, substitutions={"fc_A": feedA}, SymbolicSys=FakeSymbolicSys)
    check("feed_concentration_substituted", o, x, ["feedratio", "fc_B", "fc_S"], lambda p: k, lambda p: p["feedratio"], lambda p, s: feedA if s == "A" else p["fc_" + s])
    own = OrderedDict([("B", "inB"), ("A", "inA"), ("S", "inS")])
    o, x = v.call(get_odesys, rsys, cstr=("flow", own), SymbolicSys=FakeSymbolicSys)
    check("keys_chosen_by_the_caller", o, x, ["flow", "inA", "inB", "inS"], lambda p: k, lambda p: p["flow"], lambda p, s: p["in" + s])
    v.prove("keys_chosen_by_the_caller.reported", x["cstr_fr_fc"][0] == "flow" and dict(x["cstr_fr_fc"][1]) == dict(own))


@harness("C04", "get_odesys.time_is_reserved", functions=[ODE + ":get_odesys.<locals>.dydt"], kind="shape-bounded", samples=0)
def _(v):
    from chempy.kinetics.ode import get_odesys
    from chempy.chemistry import Reaction, Substance
    from chempy.reactionsystem import ReactionSystem
    rsys = ReactionSystem([Reaction({"time": 1}, {"B": 1}, v.real("k", lo=0, hi=9), checks=())], [Substance("time"), Substance("B")], checks=())
    out = v.run(get_odesys, rsys, SymbolicSys=FakeSymbolicSys)
    v.prove("reserved_key_refused", out.raised(ValueError))


@harness("C04", "_create_odesys", functions=[ODE + ":_create_odesys"], kind="data")
def _(v):
    """the explicit sympy builder: concrete systems, exact symbolic comparison through sympy (translation validation of three fixed systems; the generated ones are in the bounded stand-in)"""
    import sympy
    from chempy.kinetics.ode import _create_odesys
    from chempy.chemistry import Reaction, Substance
    from chempy.reactionsystem import ReactionSystem
    ok = True
    detail = ""
    for order_sub in (["A", "B", "C"], ["C", "A", "B"]):
        rsys = ReactionSystem([Reaction({"A": 2, "B": 1}, {"C": 1}, "k1"), Reaction({"C": 1}, {"A": 1, "B": 2}, "k2", inact_reac={"A": 1})], [Substance(s) for s in order_sub], checks=())
        odesys, extra = _create_odesys(rsys)
        y = dict(zip(odesys.names, odesys.dep))
        p = dict(zip(odesys.param_names, odesys.params))
        r1 = p["k1"] * y["A"] ** 2 * y["B"]
        r2 = p["k2"] * y["C"]
        want = {"A": -2 * r1 + (1 - 1) * r2, "B": -r1 + 2 * r2, "C": r1 - r2}
        ok = ok and list(odesys.names) == order_sub and set(odesys.param_names) == {"k1", "k2"}
        for n, e in zip(odesys.names, odesys.exprs):
            if sympy.simplify(e - want[n]) != 0:
                ok = False
                detail = "%s: %s vs %s" % (n, e, want[n])
    v.prove("pairs_in_substance_order_with_exact_rhs", ok, detail)


class CapturingSys:
    """assumed contract 5.6, constructor form: SymbolicSys(dep_exprs, indep, params, names=..., param_names=...) keeps the pairs as given"""

    def __init__(self, dep_exprs, indep=None, params=(), names=(), param_names=(), **kwargs):
        pairs = list(dep_exprs)
        self.dep = tuple(d for d, _ in pairs)
        self.exprs = tuple(e for _, e in pairs)
        self.indep = indep
        self.params = tuple(params)
        self.names = tuple(names)
        self.param_names = tuple(param_names)
        self.kwargs = kwargs


@harness("C04", "_create_odesys.symbols_handed_in", functions=[ODE + ":_create_odesys"], kind="shape-bounded", samples=0, max_paths=300)
def _(v):
    """the explicit builder interpreted from its AST with the caller's own symbols: every dependent variable is paired with the rate of its own
    substance, in substance order, whatever the iteration order of a plain-dict substance_symbols"""
    import z3
    from chempy.kinetics.ode import _create_odesys
    lays = layouts()["inactive_mix"]
    rsys, ds, ks = build(v, lays, named=True)
    psyms = OrderedDict((("kk%d" % i, Sym(z3.Real("P_kk%d" % i))) for i in range(len(lays))))
    t = Sym(z3.Real("T_time"))
    v.assume(t != 0)   # a sympy Symbol is truthy ('time_symbol or backend.Symbol("t")'); the Sym standing for it must be too
    for label, order in (("substance_order", SUBST), ("reversed_plain_dict", SUBST[::-1]), ("rotated_plain_dict", SUBST[2:] + SUBST[:2])):
        ssyms = {k: Sym(z3.Real("Y_" + k)) for k in order}
        # precondition of the builder: the time symbol is a different symbol (Sym equality is equality of values, sympy's is structural)
        for other in list(ssyms.values()) + list(psyms.values()):
            v.assume(other != t)
        odesys, extra = v.call(_create_odesys, rsys, substance_symbols=ssyms, parameter_symbols=psyms, backend=FakeBackend(), SymbolicSys=CapturingSys, time_symbol=t)
        want = spec_rhs(ds, [psyms["kk%d" % i] for i in range(len(lays))], ssyms)
        v.prove(label + ".names_in_substance_order", list(odesys.names) == SUBST and list(odesys.param_names) == list(psyms))
        v.prove(label + ".each_dependent_variable_is_its_own_substance", all(d is ssyms[s] for d, s in zip(odesys.dep, SUBST)) and len(odesys.dep) == len(SUBST))
        v.prove(label + ".each_equation_is_the_rate_of_its_own_substance", SP.conj([v.eq(e, want[s]) for e, s in zip(odesys.exprs, SUBST)]))
    wrong = OrderedDict((k, Sym(z3.Real("Y_" + k))) for k in SUBST[::-1])
    for other in wrong.values():
        v.assume(other != t)
    out = v.run(_create_odesys, rsys, substance_symbols=wrong, parameter_symbols=psyms, backend=FakeBackend(), SymbolicSys=CapturingSys, time_symbol=t)
    v.prove("misordered_OrderedDict_refused", out.raised(ValueError))


def _two_key_rate(args, temperature, gasconst, backend=None, **kwargs):
    return args[0] * temperature + gasconst


class _Constants:
    """a namespace of physical constants as get_odesys(constants=...) expects it (attribute access only)"""

    def __init__(self, **kw):
        self.__dict__.update(kw)


@harness("C04", "get_odesys.constants_and_substitutions", functions=[ODE + ":get_odesys", ODE + ":get_odesys.<locals>.dydt", ODE + ":get_odesys.<locals>.reaction_rates", "chempy.kinetics.rates:MassAction.rate_coeff"], kind="shape-bounded", samples=0, max_paths=300)
def _(v):
    """which symbols are free and which are bound when both a constants namespace and explicit substitutions are given: an explicit substitution
    wins over the namespace, a namespace value binds the key it names, everything else stays a parameter; the right-hand side is the kinetic model
    with exactly those bindings"""
    from chempy.kinetics.ode import get_odesys
    from chempy.kinetics.rates import MassAction
    from chempy.chemistry import Reaction, Substance
    from chempy.reactionsystem import ReactionSystem
    MA = MassAction.from_callback(_two_key_rate, argument_names=("a",), parameter_keys=("temperature", "gasconst"))
    a0, a1 = v.real("a0", lo=0, hi=9), v.real("a1", lo=0, hi=9)
    n0, n1 = v.int("nu0", lo=1, hi=3), v.int("nu1", lo=1, hi=3)
    rsys = ReactionSystem([Reaction({"A": n0}, {"B": 1}, MA([a0]), checks=()), Reaction({"B": n1, "C": 1}, {"A": 2}, MA([a1]), checks=())],
                          [Substance(s) for s in "ABC"], checks=())
    cR, sR = v.real("gasconst_in_namespace", lo=1, hi=9), v.real("gasconst_substituted", lo=1, hi=9)

    def want(y, T, R):
        r0 = (a0 * T + R) * SP.spow(y["A"], n0)
        r1 = (a1 * T + R) * SP.spow(y["B"], n1) * y["C"]
        return {"A": -n0 * r0 + 2 * r1, "B": r0 - n1 * r1, "C": -r1}

    def check(label, odesys, pnames, R):
        y = dict(zip(odesys.names, odesys.dep))
        p = dict(zip(odesys.param_names, odesys.params))
        v.prove(label + ".free_parameters", list(odesys.param_names) == pnames)
        if list(odesys.param_names) == pnames:
            w = want(y, p["temperature"], p["gasconst"] if R is None else R)
            v.prove(label + ".rhs_with_exactly_these_bindings", SP.conj([v.eq(e, w[s]) for e, s in zip(odesys.exprs, "ABC")]))
            T_, R_ = p["temperature"], p["gasconst"] if R is None else R
            rates = [(a0 * T_ + R_) * SP.spow(y["A"], n0), (a1 * T_ + R_) * SP.spow(y["B"], n1) * y["C"]]
            v.prove(label + ".rate_exprs_cb_with_the_same_bindings", len(odesys.cb_exprs) == 2 and SP.conj([v.eq(r_, w_) for r_, w_ in zip(odesys.cb_exprs, rates)]))

    o, _x = v.call(get_odesys, rsys, SymbolicSys=FakeSymbolicSys)
    check("nothing_bound", o, list(o.param_names), None)
    v.prove("nothing_bound.both_keys_free", set(o.param_names) == {"temperature", "gasconst"})
    o, _x = v.call(get_odesys, rsys, constants=_Constants(gasconst=cR), SymbolicSys=FakeSymbolicSys)
    check("namespace_binds_its_key", o, ["temperature"], cR)
    o, _x = v.call(get_odesys, rsys, substitutions={"gasconst": sR}, SymbolicSys=FakeSymbolicSys)
    check("substitution_binds_its_key", o, ["temperature"], sR)
    o, _x = v.call(get_odesys, rsys, constants=_Constants(gasconst=cR), substitutions={"gasconst": sR}, SymbolicSys=FakeSymbolicSys)
    check("explicit_substitution_wins_over_namespace", o, ["temperature"], sR)
    o, _x = v.call(get_odesys, rsys, constants=_Constants(gasconst=cR, unrelated=1.0), substitutions={"temperature": sR}, SymbolicSys=FakeSymbolicSys)
    y = dict(zip(o.names, o.dep))
    w = want(y, sR, cR)
    v.prove("both_bound.no_free_parameters", list(o.param_names) == [])
    v.prove("both_bound.rhs", SP.conj([v.eq(e, w[s]) for e, s in zip(o.exprs, "ABC")]))
    v.prove("both_bound.rate_exprs_cb", len(o.cb_exprs) == 2 and SP.conj([v.eq(o.cb_exprs[0], (a0 * sR + cR) * SP.spow(y["A"], n0)), v.eq(o.cb_exprs[1], (a1 * sR + cR) * SP.spow(y["B"], n1) * y["C"])]))


@harness("C04", "get_odesys.unit_registry.named_and_numeric_constants", functions=[ODE + ":get_odesys", ODE + ":get_odesys.<locals>.dydt", ODE + ":get_odesys.<locals>.reaction_rates",
                                                                                  "chempy.util._expr:Expr.dedimensionalisation"], kind="shape-bounded", div_mode="assume", samples=0, max_paths=400)
def _(v):
    """with a unit registry every reaction keeps ITS OWN rate expression (named constants stay parameters, numeric ones are expressed in registry
    units); generic registry of symbolic scale (abstraction 5.1)"""
    from chempy.kinetics.ode import get_odesys
    from chempy.kinetics.rates import MassAction
    from chempy.chemistry import Reaction, Substance
    from chempy.reactionsystem import ReactionSystem
    from chempy import units as CU
    from pyvc.qmodel import si_value, std_table, Quantity
    from contracts.C10 import _registry, _unit_in_registry
    t = std_table()
    reg = _registry(v, t)
    v.contract(CU.default_unit_in_registry, "default_unit_in_registry", None, lambda v_, value, registry: _unit_in_registry(t, registry, value) if isinstance(value, Quantity) else 1)
    v.contract(CU.unitless_in_registry, "unitless_in_registry", None,
               lambda v_, value, registry: v_.interp.call(CU.to_unitless, (value, _unit_in_registry(t, registry, value))) if isinstance(value, Quantity) else value)
    ku = t.generic("ku", (0, 0, -1, 0, 0, 0, 0))
    k2, k3 = v.real("k2", lo=1e-9, hi=1e9), v.real("k3", lo=1e-9, hi=1e9)
    rsys = ReactionSystem([Reaction({"A": 1}, {"B": 1}, "k1", checks=()), Reaction({"B": 1}, {"C": 1}, MassAction([k2 * ku]), checks=()),
                           Reaction({"C": 1}, {"D": 1}, "k4", checks=()), Reaction({"D": 1}, {"A": 1}, MassAction([k3 * ku]), checks=())],
                          [Substance(s) for s in "ABCD"], checks=())
    reg_t = si_value(reg["time"])
    bound = v.real("k4_bound_by_substitution", lo=0, hi=9)
    # a name bound to a plain number is taken as a value in registry units; bound to a QUANTITY (bound [ku], ku a generic unit of 1/time) it is
    # expressed in registry units like the numeric constants: bound * si(ku) * si(registry time)
    for label, kw, names, k4 in (("names_free", dict(include_params=False), ["k1", "k4"], None),
                                 ("one_name_bound", dict(include_params=False, substitutions={"k4": bound}), ["k1"], bound),
                                 ("one_name_bound_to_a_quantity", dict(include_params=False, substitutions={"k4": bound * ku}), ["k1"], bound * si_value(ku) * reg_t)):
        odesys, extra = v.call(get_odesys, rsys, unit_registry=reg, SymbolicSys=FakeSymbolicSys, **kw)
        y = dict(zip(odesys.names, odesys.dep))
        p = dict(zip(odesys.param_names, odesys.params))
        v.prove(label + ".named_constants_are_the_parameters", sorted(odesys.param_names) == names)
        if sorted(odesys.param_names) != names:
            continue
        if k4 is not None:
            p["k4"] = k4
        r = [p["k1"] * y["A"], None, p["k4"] * y["C"], None]
        want = {"A": (-r[0], +1, k3, "D"), "B": (r[0], -1, k2, "B"), "C": (-r[2], +1, k2, "B"), "D": (r[2], -1, k3, "D")}
        for e, s in zip(odesys.exprs, "ABCD"):
            named, sign, k, src = want[s]
            # numeric constants: k [1/s] = k_reg [1/registry time]  <=>  k_reg = k * si(ku) * si(registry time)
            v.prove_identity(label + ".rhs_" + s, e, named + sign * k * si_value(ku) * reg_t * y[src])
        per_rxn = odesys.cb_exprs
        v.prove(label + ".one_rate_per_reaction", len(per_rxn) == 4)
        if len(per_rxn) == 4:
            v.prove_identity(label + ".rate_0", per_rxn[0], r[0])
            v.prove_identity(label + ".rate_1", per_rxn[1], k2 * si_value(ku) * reg_t * y["B"])
            v.prove_identity(label + ".rate_2", per_rxn[2], r[2])
            v.prove_identity(label + ".rate_3", per_rxn[3], k3 * si_value(ku) * reg_t * y["D"])


@harness("C04", "get_odesys.names_are_substance_keys", functions=[ODE + ":get_odesys", ODE + ":get_odesys.<locals>.dydt"], kind="shape-bounded", samples=0, max_paths=300)
def _(v):
    """'dependent-variable names matching substance KEYS': a system whose keys differ from the Substance.name attributes (here: the names are a
    permutation of the keys, the worst case because nothing raises)"""
    from chempy.kinetics.ode import get_odesys
    from chempy.chemistry import Reaction, Substance
    from chempy.reactionsystem import ReactionSystem
    k0, k1 = v.real("k0", lo=0, hi=9), v.real("k1", lo=0, hi=9)
    n = v.int("nu", lo=1, hi=3)
    subs = OrderedDict([("A", Substance("B")), ("B", Substance("C")), ("C", Substance("A"))])
    rsys = ReactionSystem([Reaction({"A": n}, {"B": 1}, k0, checks=()), Reaction({"B": 1, "C": 1}, {"A": 2}, k1, checks=())], subs, checks=())
    odesys, extra = v.call(get_odesys, rsys, SymbolicSys=FakeSymbolicSys)
    v.prove("names_are_the_keys_in_substance_order", list(odesys.names) == ["A", "B", "C"])
    y = dict(zip(["A", "B", "C"], odesys.dep))
    r0 = k0 * SP.spow(y["A"], n)
    r1 = k1 * y["B"] * y["C"]
    for e, (s, want) in zip(odesys.exprs, (("A", -n * r0 + 2 * r1), ("B", r0 - r1), ("C", -r1))):
        v.prove("equation_%d_is_that_of_key_%s" % (list("ABC").index(s), s), v.eq(e, want))


@harness("C04", "get_odesys.rebuilt_after_changing_a_rate_constant", functions=[ODE + ":get_odesys", "chempy.chemistry:Reaction.rate_expr"], kind="shape-bounded", samples=0, max_paths=300)
def _(v):
    """the builders read the reaction system as it IS when they are called: a second build after re-assigning a rate constant (number or name)
    uses the new one"""
    from chempy.kinetics.ode import get_odesys, _create_odesys
    import z3
    lays = layouts()["two_shared"]
    rsys, ds, ks = build(v, lays)
    v.call(get_odesys, rsys, SymbolicSys=FakeSymbolicSys)
    knew = v.real("k_new", lo=0, hi=9)
    rsys.rxns[0].param = knew
    odesys, extra = v.call(get_odesys, rsys, SymbolicSys=FakeSymbolicSys)
    conc = dict(zip(odesys.names, odesys.dep))
    want = spec_rhs(ds, [knew, ks[1]], conc)
    v.prove("second_build_uses_the_new_number", SP.conj([v.eq(e, want[s]) for e, s in zip(odesys.exprs, SUBST)]))
    rsys2, ds2, ks2 = build(v, lays, named=True)
    v.call(get_odesys, rsys2, include_params=False, SymbolicSys=FakeSymbolicSys)
    rsys2.rxns[1].param = "renamed"
    o2, x2 = v.call(get_odesys, rsys2, include_params=False, SymbolicSys=FakeSymbolicSys)
    v.prove("second_build_uses_the_new_name", sorted(o2.param_names) == ["kk0", "renamed"])
    if sorted(o2.param_names) == ["kk0", "renamed"]:
        p2 = dict(zip(o2.param_names, o2.params))
        want2 = spec_rhs(ds2, [p2["kk0"], p2["renamed"]], dict(zip(o2.names, o2.dep)))
        v.prove("second_build_rhs_in_the_new_name", SP.conj([v.eq(e, want2[s]) for e, s in zip(o2.exprs, SUBST)]))
    psyms = OrderedDict((k, Sym(z3.Real("P_" + k))) for k in ("kk0", "renamed"))
    ssyms = OrderedDict((k, Sym(z3.Real("Y_" + k))) for k in SUBST)
    t = Sym(z3.Real("T_time"))
    v.assume(t != 0)
    for other in list(ssyms.values()) + list(psyms.values()):
        v.assume(other != t)
    o3, x3 = v.call(_create_odesys, rsys2, substance_symbols=ssyms, parameter_symbols=psyms, backend=FakeBackend(), SymbolicSys=CapturingSys, time_symbol=t)
    want3 = spec_rhs(ds2, [psyms["kk0"], psyms["renamed"]], ssyms)
    v.prove("alternative_builder_uses_the_new_name", SP.conj([v.eq(e, want3[s]) for e, s in zip(o3.exprs, SUBST)]))


class ExpBackend(FakeBackend):
    """odesys.be for rate expressions that need exp: the real function of assumed contract 5.3"""

    @staticmethod
    def exp(x):
        from pyvc.stubs import sym_exp
        return sym_exp(x)


class ExpSys(FakeSymbolicSys):
    def __init__(self):
        super().__init__()

    @classmethod
    def from_callback(cls, cb, **kw):
        self = super().from_callback(lambda t, y, p, be: cb(t, y, p, ExpBackend()), **kw)
        self.be = ExpBackend()
        return self


@harness("C04", "get_odesys.active_substitution", functions=[ODE + ":get_odesys", ODE + ":get_odesys.<locals>.dydt", ODE + ":get_odesys.<locals>.reaction_rates", ODE + ":get_odesys.<locals>._reg_unique", "chempy.kinetics.rates:Arrhenius.__call__",
                                                             "chempy.kinetics.rates:RampedTemp.__call__"], kind="shape-bounded", div_mode="assume", samples=0, max_paths=400)
def _(v):
    """a variable replaced by an EXPRESSION (temperature ramped linearly in time): parameters inlined -> no free symbol, the rate constant is
    A*exp(-E/(T0 + r*t)); parameters kept free -> the expression's own arguments become parameters, and binding them reproduces the inlined rhs"""
    from chempy.kinetics.ode import get_odesys
    from chempy.kinetics.rates import MassAction, Arrhenius, RampedTemp
    from chempy.chemistry import Reaction, Substance
    from chempy.reactionsystem import ReactionSystem
    from pyvc.stubs import sym_exp
    A0, E, T0, r = v.real("A0", lo=0.1, hi=9), v.real("E", lo=1, hi=900), v.real("T0", lo=250, hi=350), v.real("r", lo=0.1, hi=2)
    n = v.int("nu", lo=1, hi=3)
    rsys = ReactionSystem([Reaction({"A": n}, {"B": 1}, MassAction(Arrhenius([A0, E], ("Aa", "Ea"))), checks=())], [Substance("B"), Substance("A")], checks=())
    sub = {"temperature": RampedTemp([T0, r], ("T0", "dTdt"))}
    o, x = v.call(get_odesys, rsys, include_params=True, substitutions=sub, SymbolicSys=ExpSys)
    y = dict(zip(o.names, o.dep))
    v.prove("inlined.no_free_parameters", list(o.param_names) == [])
    v.assume(T0 + r * o.indep > 1)
    k_t = A0 * sym_exp(-E / (T0 + r * o.indep))
    v.prove("inlined.rhs", SP.conj([v.eq(o.exprs[0], k_t * SP.spow(y["A"], n)), v.eq(o.exprs[1], -n * k_t * SP.spow(y["A"], n))]))
    v.prove("inlined.rate_exprs_cb", len(o.cb_exprs) == 1 and v.eq(o.cb_exprs[0], k_t * SP.spow(y["A"], n)))
    o2, x2 = v.call(get_odesys, rsys, include_params=False, substitutions=sub, SymbolicSys=ExpSys)
    y2 = dict(zip(o2.names, o2.dep))
    p2 = dict(zip(o2.param_names, o2.params))
    v.prove("free.parameters_are_the_arguments_of_both_expressions", set(o2.param_names) == {"T0", "dTdt", "Aa", "Ea"} and len(o2.param_names) == 4)
    v.prove("free.registered_values", SP.conj([x2["unique"]["T0"] == T0, x2["unique"]["dTdt"] == r, x2["unique"]["Aa"] == A0, x2["unique"]["Ea"] == E]))
    if set(o2.param_names) == {"T0", "dTdt", "Aa", "Ea"}:
        v.assume(p2["T0"] + p2["dTdt"] * o2.indep > 1)
        kf = p2["Aa"] * sym_exp(-p2["Ea"] / (p2["T0"] + p2["dTdt"] * o2.indep))
        v.prove("free.rhs_in_the_free_symbols", SP.conj([v.eq(o2.exprs[0], kf * SP.spow(y2["A"], n)), v.eq(o2.exprs[1], -n * kf * SP.spow(y2["A"], n))]))
        v.prove("free.rate_exprs_cb", len(o2.cb_exprs) == 1 and v.eq(o2.cb_exprs[0], kf * SP.spow(y2["A"], n)))


@harness("C04", "get_odesys.unit_registry.second_order", functions=[ODE + ":get_odesys", ODE + ":get_odesys.<locals>.dydt", "chempy.util._expr:Expr.dedimensionalisation", "chempy.units:get_derived_unit"],
         kind="shape-bounded", div_mode="assume", samples=0, max_paths=400)
def _(v):
    """with a unit registry and a second-order step the concentration unit of the registry enters: the numeric constant k [1/(conc*time)] becomes
    k * si(ku) * si(registry conc) * si(registry time) in registry units (generic registry and generic unit of the constant)"""
    from chempy.kinetics.ode import get_odesys
    from chempy.kinetics.rates import MassAction
    from chempy.chemistry import Reaction, Substance
    from chempy.reactionsystem import ReactionSystem
    from chempy import units as CU
    from pyvc.qmodel import si_value, std_table, Quantity
    from contracts.C10 import _registry, _unit_in_registry
    t = std_table()
    reg = _registry(v, t)
    v.contract(CU.default_unit_in_registry, "default_unit_in_registry", None, lambda v_, value, registry: _unit_in_registry(t, registry, value) if isinstance(value, Quantity) else 1)
    v.contract(CU.unitless_in_registry, "unitless_in_registry", None,
               lambda v_, value, registry: v_.interp.call(CU.to_unitless, (value, _unit_in_registry(t, registry, value))) if isinstance(value, Quantity) else value)
    ku2 = t.generic("ku2", (3, 0, -1, 0, 0, 0, -1))       # volume / (amount * time)
    ku1 = t.generic("ku1", (0, 0, -1, 0, 0, 0, 0))
    k2, k1 = v.real("k2", lo=1e-9, hi=1e9), v.real("k1", lo=1e-9, hi=1e9)
    rsys = ReactionSystem([Reaction({"A": 1, "B": 1}, {"C": 1}, MassAction([k2 * ku2]), checks=()), Reaction({"C": 1}, {"A": 2}, MassAction([k1 * ku1]), checks=())],
                          [Substance(s) for s in "CAB"], checks=())
    odesys, extra = v.call(get_odesys, rsys, unit_registry=reg, SymbolicSys=FakeSymbolicSys)
    y = dict(zip(odesys.names, odesys.dep))
    reg_t, reg_c = si_value(reg["time"]), si_value(reg["amount"] / reg["length"] ** 3)
    r2 = k2 * si_value(ku2) * reg_c * reg_t * y["A"] * y["B"]
    r1 = k1 * si_value(ku1) * reg_t * y["C"]
    v.prove("names", list(odesys.names) == ["C", "A", "B"] and list(odesys.param_names) == [])
    for e, want, s in zip(odesys.exprs, (r2 - r1, -r2 + 2 * r1, -r2), "CAB"):
        v.prove_identity("rhs_" + s, e, want)
    # the same constant given by NAME and bound to a quantity through substitutions: 'substituting changes only which symbols are free', so the
    # quantity b [ku2] must arrive in registry units exactly like the inlined one (b * si(ku2) * si(registry conc) * si(registry time))
    b = v.real("k2_bound_by_substitution", lo=1e-9, hi=1e9)
    rsys_n = ReactionSystem([Reaction({"A": 1, "B": 1}, {"C": 1}, "kAB", checks=()), Reaction({"C": 1}, {"A": 2}, MassAction([k1 * ku1]), checks=())],
                            [Substance(s) for s in "CAB"], checks=())
    for label, incl in (("name_bound_to_a_quantity.free", False), ("name_bound_to_a_quantity.inlined", True)):
        on, xn = v.call(get_odesys, rsys_n, unit_registry=reg, include_params=incl, substitutions={"kAB": b * ku2}, SymbolicSys=FakeSymbolicSys)
        yn = dict(zip(on.names, on.dep))
        rb = b * si_value(ku2) * reg_c * reg_t * yn["A"] * yn["B"]
        r1n = k1 * si_value(ku1) * reg_t * yn["C"]
        v.prove(label + ".names", list(on.names) == ["C", "A", "B"] and len(on.param_names) == 0)
        for e, want, s in zip(on.exprs, (rb - r1n, -rb + 2 * r1n, -rb), "CAB"):
            v.prove_identity(label + ".rhs_" + s, e, want)


@harness("C04", "_create_odesys.names_are_substance_keys", functions=[ODE + ":_create_odesys"], kind="shape-bounded", samples=0, max_paths=300)
def _(v):
    """the alternative builder as well: dependent-variable names are the substance KEYS (keys that differ from the Substance.name attributes)"""
    import z3
    from chempy.kinetics.ode import _create_odesys
    from chempy.chemistry import Reaction, Substance
    from chempy.reactionsystem import ReactionSystem
    subs = OrderedDict([("NO2", Substance("nitrogen dioxide")), ("N2O4", Substance("dinitrogen tetroxide"))])
    n = v.int("nu", lo=1, hi=3)
    rsys = ReactionSystem([Reaction({"NO2": n}, {"N2O4": 1}, "k", checks=())], subs, checks=())
    psyms = OrderedDict([("k", Sym(z3.Real("P_k")))])
    ssyms = OrderedDict((k, Sym(z3.Real("Y_" + k))) for k in subs)
    t = Sym(z3.Real("T_time"))
    v.assume(t != 0)
    for other in list(ssyms.values()) + list(psyms.values()):
        v.assume(other != t)
    o, x = v.call(_create_odesys, rsys, substance_symbols=ssyms, parameter_symbols=psyms, backend=FakeBackend(), SymbolicSys=CapturingSys, time_symbol=t)
    v.prove("names_are_the_keys", list(o.names) == ["NO2", "N2O4"])
    r = psyms["k"] * SP.spow(ssyms["NO2"], n)
    v.prove("rhs", SP.conj([v.eq(o.exprs[0], -n * r), v.eq(o.exprs[1], r)]))


@harness("C04", "get_odesys.nested_unique_keys", functions=[ODE + ":get_odesys", ODE + ":get_odesys.<locals>._reg_unique", ODE + ":get_odesys.<locals>.reaction_rates"], kind="shape-bounded", div_mode="assume", samples=0, max_paths=400)
def _(v):
    """'keeping rate constants as free parameters': EVERY unique key of a rate expression becomes a parameter, also the key of an expression nested
    inside another one that has a key of its own; binding them reproduces the inlined right-hand side"""
    from chempy.kinetics.ode import get_odesys
    from chempy.kinetics.rates import MassAction, Arrhenius
    from chempy.util._expr import Expr
    from chempy.chemistry import Reaction, Substance
    from chempy.reactionsystem import ReactionSystem
    from pyvc.stubs import sym_exp

    class Scaled(Expr):
        """a*2: stands for any user-defined inner expression (e.g. an activation energy over R computed from something else)"""
        argument_names = ("a",)

        def __call__(self, variables, backend=None, **kwargs):
            (a,) = self.all_args(variables, backend=backend, **kwargs)
            return a * 2
    A0, E = v.real("A0", lo=0.1, hi=9), v.real("E", lo=1, hi=900)
    T = v.real("T", lo=250, hi=350)
    rsys = ReactionSystem([Reaction({"A": 1}, {"B": 1}, MassAction(Arrhenius([A0, Scaled([E], unique_keys=("E_inner",))], unique_keys=("A_outer",))), checks=())],
                          [Substance("A"), Substance("B")], checks=())
    o, x = v.call(get_odesys, rsys, include_params=False, SymbolicSys=ExpSys)
    v.prove("both_keys_are_parameters", set(o.param_names) == {"temperature", "A_outer", "E_inner"} and len(o.param_names) == 3, detail=repr(o.param_names))
    if set(o.param_names) == {"temperature", "A_outer", "E_inner"}:
        p = dict(zip(o.param_names, o.params))
        y = dict(zip(o.names, o.dep))
        v.assume(p["temperature"] > 1)
        k = p["A_outer"] * sym_exp(-(p["E_inner"] * 2) / p["temperature"])
        v.prove("rhs_in_the_free_symbols", SP.conj([v.eq(o.exprs[0], -k * y["A"]), v.eq(o.exprs[1], k * y["A"])]))
        v.prove("rate_exprs_cb_in_the_free_symbols", len(o.cb_exprs) == 1 and v.eq(o.cb_exprs[0], k * y["A"]))
        v.prove("registered_values", SP.conj([x["unique"]["A_outer"] == A0, x["unique"]["E_inner"] == E]))


@harness("C04", "rate_law_that_is_not_mass_action", functions=[ODE + ":get_odesys", ODE + ":get_odesys.<locals>.dydt", ODE + ":get_odesys.<locals>.reaction_rates", ODE + ":get_odesys.<locals>._reg_unique",
                                                             ODE + ":_create_odesys", "chempy.reactionsystem:ReactionSystem.rates"], kind="shape-bounded", div_mode="assume", samples=0, max_paths=400)
def _(v):
    """'the vector of reaction rates' is whatever rate law the reaction carries, not only mass action: a Michaelis-Menten law Vmax*[S]/(Km + [S]) on
    n S -> P gives d[S]/dt = -n*rate, d[P]/dt = rate with NO factor [S]**n (the reaction order does not enter a law that is not mass action);
    inlined, with both constants kept free (binding them reproduces the inlined rhs), per reaction, and through the alternative builder"""
    import z3
    from chempy.kinetics.ode import get_odesys, _create_odesys
    from chempy.kinetics.rates import RateExpr
    from chempy.chemistry import Reaction, Substance
    from chempy.reactionsystem import ReactionSystem

    class MM(RateExpr):
        argument_names = ("Vmax", "Km")

        def __call__(self, variables, backend=None, **kwargs):
            Vmax, Km = self.all_args(variables, backend=backend, **kwargs)
            return Vmax * variables["S"] / (Km + variables["S"])
    V, K = v.real("Vmax", lo=0.1, hi=9), v.real("Km", lo=0.1, hi=9)
    n = v.int("nu", lo=1, hi=3)
    rsys = ReactionSystem([Reaction({"S": n}, {"P": 1}, MM([V, K], unique_keys=("Vmax", "Km")), checks=())], [Substance("P"), Substance("S")], checks=())
    law = lambda Vm, Km, S: Vm * S / (Km + S)
    yS = Sym(z3.Real("y_S"))      # the symbol FakeSymbolicSys gives the concentration of S; a concentration is not negative, so Km + [S] > 0
    v.assume(yS >= 0)
    o, x = v.call(get_odesys, rsys, SymbolicSys=FakeSymbolicSys)
    y = dict(zip(o.names, o.dep))
    v.prove("inlined.names_and_no_parameters", list(o.names) == ["P", "S"] and len(o.param_names) == 0)
    v.prove("inlined.rhs", SP.conj([v.eq(o.exprs[0], law(V, K, y["S"])), v.eq(o.exprs[1], -n * law(V, K, y["S"]))]))
    v.prove("inlined.one_rate_per_reaction", len(o.cb_exprs) == 1 and v.eq(o.cb_exprs[0], law(V, K, y["S"])))
    o2, x2 = v.call(get_odesys, rsys, include_params=False, SymbolicSys=FakeSymbolicSys)
    v.prove("free.both_constants_are_parameters", sorted(o2.param_names) == ["Km", "Vmax"], detail=repr(o2.param_names))
    if sorted(o2.param_names) == ["Km", "Vmax"]:
        y2 = dict(zip(o2.names, o2.dep))
        p2 = dict(zip(o2.param_names, o2.params))
        v.assume(p2["Km"] > 0)
        v.prove("free.rhs_in_the_free_symbols", SP.conj([v.eq(o2.exprs[0], law(p2["Vmax"], p2["Km"], y2["S"])), v.eq(o2.exprs[1], -n * law(p2["Vmax"], p2["Km"], y2["S"]))]))
        v.prove("free.registered_values", sorted(x2["unique"]) == ["Km", "Vmax"] and SP.conj([x2["unique"]["Vmax"] == V, x2["unique"]["Km"] == K]))
        v.prove("free.one_rate_per_reaction", len(o2.cb_exprs) == 1 and v.eq(o2.cb_exprs[0], law(p2["Vmax"], p2["Km"], y2["S"])))
    # the alternative builder, with the caller's own symbols
    psyms = OrderedDict((k, Sym(z3.Real("P_" + k))) for k in ("Vmax", "Km"))
    ssyms = OrderedDict((k, Sym(z3.Real("Y_" + k))) for k in ("P", "S"))
    t = Sym(z3.Real("T_time"))
    v.assume(t != 0)
    for other in list(ssyms.values()) + list(psyms.values()):
        v.assume(other != t)
    v.assume(ssyms["S"] >= 0)
    v.assume(psyms["Km"] > 0)
    o3, x3 = v.call(_create_odesys, rsys, substance_symbols=ssyms, parameter_symbols=psyms, backend=FakeBackend(), SymbolicSys=CapturingSys, time_symbol=t)
    w = law(psyms["Vmax"], psyms["Km"], ssyms["S"])
    v.prove("alternative_builder.rhs", list(o3.names) == ["P", "S"] and SP.conj([v.eq(o3.exprs[0], w), v.eq(o3.exprs[1], -n * w)]))


@harness("C04", "name_clashes_are_refused", functions=[ODE + ":_create_odesys", ODE + ":get_odesys"], kind="data")
def _(v):
    """'dependent-variable and parameter names matching substance keys and parameter keys': a system whose named rate constant has the name of a
    substance (or of the time variable) must not be represented with ONE symbol standing for both: each builder either refuses it (today's
    behaviour) or answers with the kinetic model in pairwise different symbols, never with a right-hand side in which the constant IS the
    concentration (-A**2 for 'A -> B; k named A') or the time"""
    import sympy
    from chempy.chemistry import Substance, Reaction
    from chempy.reactionsystem import ReactionSystem
    from chempy.kinetics.ode import _create_odesys, get_odesys
    from chempy.kinetics.rates import MassAction

    def outcome(build, want):
        """'' when the call is refused (ANY exception: what matters is that no right-hand side is returned; for get_odesys the exception is raised by
        pyodesys, whose exception classes are not ours to pin) or answered with the kinetic model written in pairwise different symbols
        (want(y, p) -> {substance key: rhs}; None = no correct answer exists); otherwise a description of the wrong answer"""
        try:
            o, _e = build()
        except Exception:
            return ""
        try:
            if want is None:
                return "answered: %s" % (o.exprs,)
            syms = list(o.dep) + list(o.params) + [o.indep]
            if len(set(syms)) != len(syms):
                return "one symbol stands for two things: dep=%s params=%s indep=%s exprs=%s" % (o.dep, o.params, o.indep, o.exprs)
            w = want(dict(zip(o.names, o.dep)), dict(zip(o.param_names, o.params)))
            if list(o.names) != list(w) or len(o.exprs) != len(w):
                return "names %r" % (o.names,)
            wrong = [(n, str(e)) for n, e in zip(o.names, o.exprs) if sympy.expand(e - w[n]) != 0]
            return "wrong rhs: %r" % wrong if wrong else ""
        except Exception as ex:
            return "answer cannot be read: %r" % ex

    both = lambda rs: (("_create_odesys", lambda: _create_odesys(rs)), ("get_odesys", lambda: get_odesys(rs, include_params=False)))
    # the only correct answer keeps the constant called 'A' / 'B' apart from the concentration of A / B
    cases = (("A -> B; 'A'", lambda y, p: OrderedDict([("A", -p["A"] * y["A"]), ("B", p["A"] * y["A"])])),
             ("A -> B; 'B'", lambda y, p: OrderedDict([("A", -p["B"] * y["A"]), ("B", p["B"] * y["A"])])),
             ("A -> B; 'k1'\nB -> C; 'A'", lambda y, p: OrderedDict([("A", -p["k1"] * y["A"]), ("B", p["k1"] * y["A"] - p["A"] * y["B"]), ("C", p["A"] * y["B"])])))
    bad = []
    for text, want in cases:
        rs = ReactionSystem.from_string(text, substance_factory=Substance)
        for label, build in both(rs):
            r = outcome(build, want)
            if r:
                bad.append((text, label, r[:200]))
    v.prove("constant_named_like_a_substance", not bad, detail=repr(bad[:3]))
    # the same through the DEFAULT configuration of get_odesys (constants inlined): a unique key that is also a substance key (or 'time') would be
    # looked up among the variables and come back as the concentration (the time); either the call is refused or the stored value 3.0 is used
    inlined = []
    for clash in ("B", "A", "time"):
        rs2 = ReactionSystem([Reaction({"A": 1}, {"B": 1}, MassAction([3.0], unique_keys=(clash,)))], "A B", substance_factory=Substance)
        r = outcome(lambda: get_odesys(rs2), lambda y, p: OrderedDict([("A", -3.0 * y["A"]), ("B", 3.0 * y["A"])]))
        if r:
            inlined.append((clash, r[:200]))
    for text in ("A -> B; 'A'", "A -> B; 'B'"):
        # a NAMED constant without a value cannot be inlined: no correct answer exists
        r = outcome(lambda: get_odesys(ReactionSystem.from_string(text, substance_factory=Substance)), None)
        if r:
            inlined.append((text, r[:200]))
    v.prove("unique_key_named_like_a_substance_or_time_with_constants_inlined", not inlined, detail=repr(inlined[:3]))
    # the same for a name that sits deeper in the rate expression: the pre-exponential factor of an Arrhenius constant called 'A' (or 'B', 'time'),
    # the constant scaled / divided / added up by the arithmetic of expressions. k = 1000*exp(-1200/T) (divided by 4, times 2, plus 5): refused, or
    # the model with the stored 1000 (a free symbol of its own when constants are kept free) -- never the concentration as pre-exponential factor
    import sympy as _sy
    from chempy.kinetics.rates import Arrhenius
    shapes = (("k", lambda a: MassAction(a), lambda k: k), ("k/4", lambda a: MassAction(a) / 4.0, lambda k: k / 4.0), ("2*k", lambda a: MassAction(a) * 2.0, lambda k: k * 2.0),
              ("k+5", lambda a: MassAction(a + 5.0), lambda k: k + 5.0))
    deep = []
    for clash in ("A", "B", "time"):
        for text, make, scaled in shapes:
            try:
                rs3 = ReactionSystem([Reaction({"A": 1}, {"B": 1}, make(Arrhenius([1e3, 1200.0], unique_keys=(clash, "Ea"))))], "A B", substance_factory=Substance)
            except Exception as ex:
                deep.append((clash, text, "set up: %r" % ex))
                continue
            rhs = lambda k, y: OrderedDict([("A", -scaled(k) * y["A"]), ("B", scaled(k) * y["A"])])
            for label, build, want in (("get_odesys", lambda: get_odesys(rs3), lambda y, p: rhs(1e3 * _sy.exp(-1200.0 / p["temperature"]), y)),
                                       ("get_odesys.free", lambda: get_odesys(rs3, include_params=False), lambda y, p: rhs(p[clash] * _sy.exp(-p["Ea"] / p["temperature"]), y)),
                                       ("_create_odesys", lambda: _create_odesys(rs3, rates_kw=dict(backend=_sy)), lambda y, p: rhs(p[clash] * _sy.exp(-p["Ea"] / p["temperature"]), y))):
                r = outcome(build, want)
                if r:
                    deep.append((clash, text, label, r[:200]))
    v.prove("unique_key_at_any_depth_named_like_a_substance_or_time", not deep, detail=repr(deep[:3]))
    # a constant whose name is that of the TIME variable (whatever the builder calls it: 't', 'time', pyodesys' 'x'): the property-level statement is
    # 'the time symbol is different from every parameter and substance symbol and the rhs is -p*[A], or the call is refused'
    bad = []
    for name in ("t", "time", "x"):
        rs = ReactionSystem.from_string("A -> B; '%s'" % name, substance_factory=Substance)
        for label, build in both(rs):
            r = outcome(build, lambda y, p: OrderedDict([("A", -p[name] * y["A"]), ("B", p[name] * y["A"])]))
            if r:
                bad.append((name, label, r[:200]))
    v.prove("constant_named_like_the_time_variable", not bad, detail=repr(bad[:3]))
    # and names that do not clash are answered (by both builders, so that 'refused' above is not the answer to everything), with exactly these
    # parameters (no order of the parameters is part of the statement)
    rs = ReactionSystem.from_string("A -> B; 'k'\nB -> C; 'k2'", substance_factory=Substance)
    bad = []
    for label, build in both(rs):
        try:
            o, _e = build()
            r = outcome(lambda: (o, _e), lambda y, p: OrderedDict([("A", -p["k"] * y["A"]), ("B", p["k"] * y["A"] - p["k2"] * y["B"]), ("C", p["k2"] * y["B"])]))
            if r or sorted(o.param_names) != ["k", "k2"]:
                bad.append((label, r, list(o.param_names)))
        except Exception as ex:
            bad.append((label, repr(ex)[:200]))
    v.prove("distinct_names_are_accepted", not bad, detail=repr(bad))


@harness("C04", "unique_keys_behind_plain_arguments", functions=[ODE + ":get_odesys", ODE + ":get_odesys.<locals>._reg_unique"], kind="data")
def _(v):
    """'keeping rate constants as free parameters … changes only which symbols are free': every unique key of every nested rate expression is
    registered, wherever it sits in the argument list -- also behind plain numbers (the bounds of a piecewise expression come before its pieces).
    With include_params=False all four keys are parameters, their defaults are reported, and binding them gives the kinetic model's value"""
    from chempy.chemistry import Reaction
    from chempy.reactionsystem import ReactionSystem
    from chempy.kinetics.ode import get_odesys
    from chempy.kinetics.rates import MassAction
    from chempy.util._expr import create_Piecewise, create_Poly
    TPoly, TPiecewise = create_Poly("temperature"), create_Piecewise("temperature")
    low, high = TPoly([1.0, 0.01], unique_keys=("a0", "a1")), TPoly([2.0, 0.02], unique_keys=("b0", "b1"))
    rsys = ReactionSystem([Reaction({"A": 1}, {"B": 1}, MassAction(TPiecewise([0, low, 300, high, 1000])))], "A B")
    try:
        odesys, extra = get_odesys(rsys, include_params=False)
        names = list(odesys.param_names)
        v.prove("all_nested_keys_are_parameters", set(names) == {"temperature", "a0", "a1", "b0", "b1"} and dict(extra["unique"]) == dict(a0=1.0, a1=0.01, b0=2.0, b1=0.02),
                detail="%r %r" % (names, dict(extra["unique"])))
        bound = dict(a0=3.0, a1=0.03, b0=5.0, b1=0.05)
        bad = []
        for T, k in ((350.0, 5.0 + 0.05 * 350.0), (200.0, 3.0 + 0.03 * 200.0)):
            p = dict(bound, temperature=T)
            f = [float(x) for x in odesys.f_cb(0.0, [2.0, 0.0], [p[n] for n in names])]
            if not all(abs(x - y) <= 1e-12 * abs(y) for x, y in zip(f, [-k * 2.0, k * 2.0])):
                bad.append((T, f))
        v.prove("bound_keys_give_the_model_value", not bad, detail=repr(bad))
    except Exception as ex:
        v.prove("all_nested_keys_are_parameters", False, detail=repr(ex)[:300])


def _native_mismatch(build, names, pnames, want, unique=None, rtol=None, also=None):
    """for the data harnesses: runs build() -> (odesys, extra) natively (sympy) and compares with the hand-written kinetic model
    want(y, p, t) -> [rhs per substance, in the order of `names`] written in the system's OWN symbols (looked up by name, so that neither the order of
    the parameters nor the spelling of the symbols matters). Returns '' when names, the SET of parameter names, the rhs (exact, through sympy) and
    -- if given -- the registered values agree, else a description; an exception of the code under test is a description as well.
    rtol: where floating point unit conversions are involved the two sides are compared as numbers (relative tolerance) at two fixed points;
    also(odesys, extra) -> '' or a description: one more thing to look at in the answer"""
    import sympy
    try:
        o, x = build()
        if list(o.names) != list(names):
            return "names %r" % (o.names,)
        if sorted(o.param_names) != sorted(pnames) or len(o.params) != len(pnames):
            return "parameters %r" % (o.param_names,)
        w = want(dict(zip(o.names, o.dep)), dict(zip(o.param_names, o.params)), o.indep)
        if len(o.exprs) != len(w):
            return "%d equations" % len(o.exprs)
        if rtol is None:
            wrong = [(n, str(e), str(we)) for n, e, we in zip(o.names, o.exprs, w) if sympy.simplify(e - we) != 0]
        else:
            wrong = []
            syms = list(o.dep) + list(o.params) + [o.indep]
            for point in ([0.75 + 0.5 * i for i in range(len(syms))], [2.5 - 0.125 * i * i for i in range(len(syms))]):
                at = dict(zip(syms, point))
                for n, e, we in zip(o.names, o.exprs, w):
                    a, b_ = float(sympy.sympify(e).subs(at)), float(sympy.sympify(we).subs(at))
                    if not abs(a - b_) <= rtol * abs(b_):
                        wrong.append((n, a, b_))
        if wrong:
            return "rhs %r" % (wrong,)
        if unique is not None and dict(x["unique"]) != unique:
            return "registered values %r" % (dict(x["unique"]),)
        return also(o, x) if also is not None else ""
    except Exception as ex:
        return "raised %r" % (ex,)


@harness("C04", "unique_keys_of_every_shape", functions=[ODE + ":get_odesys", ODE + ":get_odesys.<locals>._reg_unique"], kind="data")
def _(v):
    """'keeping rate constants as free parameters changes only which symbols are free', for the shapes of rate expression that the other harnesses
    do not have: a constant that is a bare symbol (no value: nothing to register but the name), an inner expression given without arguments (all
    of its keys are parameters, without values), fewer unique keys than arguments (the keyed argument becomes a parameter, the other one stays the
    number it is). 2 A -> B throughout: rate = k*[A]**2, d[A]/dt = -2*rate, d[B]/dt = rate; Arrhenius: k = Aa*exp(-Ea/T)"""
    import sympy
    from chempy.chemistry import Reaction
    from chempy.reactionsystem import ReactionSystem
    from chempy.kinetics.ode import get_odesys
    from chempy.kinetics.rates import MassAction, Arrhenius
    from chempy.util._expr import Symbol
    mk = lambda param: ReactionSystem([Reaction({"A": 2}, {"B": 1}, param)], "A B")
    two = lambda r: [-2 * r, r]
    rs = mk(MassAction([Symbol(unique_keys=("k",))]))
    r = _native_mismatch(lambda: get_odesys(rs, include_params=False), ["A", "B"], ["k"], lambda y, p, t: two(p["k"] * y["A"] ** 2), unique={"k": None})
    v.prove("bare_symbol", not r, detail=r)
    rs2 = mk(MassAction(Arrhenius(unique_keys=("Aa", "Ea"))))
    r = _native_mismatch(lambda: get_odesys(rs2, include_params=False), ["A", "B"], ["temperature", "Aa", "Ea"],
                         lambda y, p, t: two(p["Aa"] * sympy.exp(-p["Ea"] / p["temperature"]) * y["A"] ** 2), unique={"Aa": None, "Ea": None})
    v.prove("inner_expression_without_arguments", not r, detail=r)
    rs3 = mk(MassAction(Arrhenius([3.0, 500.0], unique_keys=("Aa",))))
    r = _native_mismatch(lambda: get_odesys(rs3, include_params=False), ["A", "B"], ["temperature", "Aa"],
                         lambda y, p, t: two(p["Aa"] * sympy.exp(-500.0 / p["temperature"]) * y["A"] ** 2), unique={"Aa": 3.0})
    v.prove("fewer_keys_than_arguments.free", not r, detail=r)
    r = _native_mismatch(lambda: get_odesys(rs3), ["A", "B"], ["temperature"], lambda y, p, t: two(3.0 * sympy.exp(-500.0 / p["temperature"]) * y["A"] ** 2), unique={})
    v.prove("fewer_keys_than_arguments.inlined", not r, detail=r)


@harness("C04", "get_odesys.unit_registry.constants_namespace", functions=[ODE + ":get_odesys"], kind="data")
def _(v):
    """'substituting variables changes only which symbols are free', with a unit registry: a parameter key (temperature) bound to a QUANTITY -- by
    the constants namespace or by a substitution -- arrives in the rate expression as a number in registry units. A -> B with
    k = 1e10/s * exp(-4000 K / T), T = 300 K, in a registry whose time unit is the minute: k = 6e11 * exp(-4000/300) per minute, no free parameter;
    with nothing bound the temperature is the one parameter"""
    import math
    import sympy
    from chempy.chemistry import Reaction
    from chempy.reactionsystem import ReactionSystem
    from chempy.kinetics.ode import get_odesys
    from chempy.kinetics.rates import MassAction, Arrhenius
    from chempy.units import SI_base_registry, default_units as u
    reg = dict(SI_base_registry, time=u.minute)
    rs = ReactionSystem([Reaction({"A": 1}, {"B": 1}, MassAction(Arrhenius([1e10 / u.s, 4000 * u.K])))], "A B")
    k = 1e10 * 60 * math.exp(-4000.0 / 300.0)
    bound = lambda y, p, t: [-k * y["A"], k * y["A"]]
    r = _native_mismatch(lambda: get_odesys(rs, unit_registry=reg, constants=_Constants(temperature=300 * u.K)), ["A", "B"], [], bound, rtol=1e-12)
    v.prove("bound_by_the_namespace", not r, detail=r)
    r = _native_mismatch(lambda: get_odesys(rs, unit_registry=reg, substitutions={"temperature": 300 * u.K}), ["A", "B"], [], bound, rtol=1e-12)
    v.prove("bound_by_a_substitution", not r, detail=r)
    r = _native_mismatch(lambda: get_odesys(rs, unit_registry=reg), ["A", "B"], ["temperature"],
                         lambda y, p, t: [-6e11 * sympy.exp(-4000.0 / p["temperature"]) * y["A"], 6e11 * sympy.exp(-4000.0 / p["temperature"]) * y["A"]], rtol=1e-12)
    v.prove("nothing_bound", not r, detail=r)
    # a NAMED rate constant bound to a quantity that is not in registry units: 2/s = 120 per minute
    rs_n = ReactionSystem([Reaction({"A": 1}, {"B": 1}, "k")], "A B")
    for label, kw in (("free", dict(include_params=False)), ("inlined", dict())):
        r = _native_mismatch(lambda: get_odesys(rs_n, unit_registry=reg, substitutions={"k": 2.0 / u.s}, **kw), ["A", "B"], [], lambda y, p, t: [-120.0 * y["A"], 120.0 * y["A"]], rtol=1e-12)
        v.prove("name_bound_to_a_quantity_in_other_units." + label, not r, detail=r)


@harness("C04", "get_odesys.unit_registry.parameter_units_follow_the_names", functions=[ODE + ":get_odesys"], kind="data")
def _(v):
    """'keeping rate constants as free parameters changes only which symbols are free, never the value of the right-hand side after those symbols
    are bound', with a unit registry. No ORDER of the parameters is part of the property, but one thing about them is positional: extra['p_units']
    (the units the pre-processor strips from the parameter values, entry by entry) has to follow param_names -- entry i is the unit OF the parameter
    named param_names[i], whatever the order of the names -- or a value given by name would be read in another parameter's unit.
    A -> B with k = Aa*exp(-Ea/T) (Aa, Ea named, T the parameter key 'temperature'), 2 B -> 2 A with the named second-order constant kb; registry:
    SI with the MINUTE as time unit, so concentrations count in mol/m3. Hand-written units: temperature K, Aa 1/min, Ea K, kb m3/(mol*min).
    Values bound by name, in units of the caller's choice: T = 300 K, Aa = 2e10/s = 1.2e12/min, Ea = 4000 K, kb = 3/(M*s) = 0.18 m3/(mol*min);
    [A] = 1 M = 1000 mol/m3, [B] = 2 M = 2000 mol/m3: r1 = 1.2e12*exp(-4000/300)*1000, r2 = 0.18*2000**2 = 720000 (mol/m3/min),
    d[A]/dt = -r1 + 2*r2, d[B]/dt = r1 - 2*r2"""
    import math
    try:
        from chempy.chemistry import Reaction
        from chempy.reactionsystem import ReactionSystem
        from chempy.kinetics.ode import get_odesys
        from chempy.kinetics.rates import MassAction, Arrhenius
        from chempy.units import SI_base_registry, default_units as u, to_unitless
        reg = dict(SI_base_registry, time=u.minute)
        rs = ReactionSystem([Reaction({"A": 1}, {"B": 1}, MassAction(Arrhenius([1e10 / u.s, 4000 * u.K], unique_keys=("Aa", "Ea")))),
                             Reaction({"B": 2}, {"A": 2}, MassAction([5.0 / u.molar / u.s], unique_keys=("kb",)))], "A B")
        unit_of = {"temperature": u.K, "Aa": 1 / u.minute, "Ea": u.K, "kb": u.metre ** 3 / u.mol / u.minute}
        odesys, extra = get_odesys(rs, unit_registry=reg, include_params=False)
        names = list(odesys.param_names)
    except Exception as ex:
        v.prove("one_unit_per_parameter_name", False, detail=repr(ex)[:300])
        return
    try:
        p_units = list(extra["p_units"])
        v.prove("one_unit_per_parameter_name", sorted(names) == sorted(unit_of) and len(p_units) == len(names), detail="%r %r" % (names, p_units))
    except Exception as ex:
        v.prove("one_unit_per_parameter_name", False, detail=repr(ex)[:300])
        return
    if sorted(names) != sorted(unit_of) or len(p_units) != len(names):
        return
    # entry i is the unit of the parameter NAMED param_names[i]: one of that unit is exactly one of the hand-written unit (a unit of another
    # dimension cannot be expressed in it: the conversion raises; a unit of another size gives a number other than 1)
    bad = []
    for n, pu in zip(names, p_units):
        try:
            one = float(to_unitless(1.0 * pu, unit_of[n]))
            if not abs(one - 1.0) <= 1e-12:
                bad.append((n, str(pu), one))
        except Exception as ex:
            bad.append((n, str(pu), repr(ex)[:120]))
    v.prove("unit_i_is_the_unit_of_the_parameter_named_i", not bad, detail=repr(bad))
    # and end to end, through the system's own pre-processing: values given BY NAME (with units) multiply their own terms
    try:
        given = {"temperature": 300 * u.K, "Aa": 2e10 / u.s, "Ea": 4000 * u.K, "kb": 3.0 / u.molar / u.s}
        x_, y_, p_ = odesys.pre_process(*odesys.to_arrays([0, 1] * u.minute, {"A": 1 * u.molar, "B": 2 * u.molar}, given))
        flat = lambda a: [float(z) for z in (a[0] if hasattr(a[0], "__len__") else a)]       # one point: a vector, or a 1 x n array
        pvec, yvec = flat(p_), flat(y_)
        f = flat(odesys.f_cb(0.0, yvec, pvec))
        r1, r2 = 1.2e12 * math.exp(-4000.0 / 300.0) * 1000.0, 0.18 * 2000.0 ** 2
        want = [-r1 + 2 * r2, r1 - 2 * r2]
        by_name = dict(zip(names, pvec))
        want_p = {"temperature": 300.0, "Aa": 1.2e12, "Ea": 4000.0, "kb": 0.18}
        ok = len(f) == 2 and all(abs(a - b) <= 1e-9 * abs(b) for a, b in zip(f, want)) and all(abs(by_name[n] - want_p[n]) <= 1e-9 * want_p[n] for n in want_p)
        v.prove("values_given_by_name_multiply_their_own_terms", ok, detail="f %r, expected %r; parameters in registry units %r" % (f, want, by_name))
    except Exception as ex:
        v.prove("values_given_by_name_multiply_their_own_terms", False, detail=repr(ex)[:300])


@harness("C04", "both_builders_same_model", functions=[ODE + ":_create_odesys", ODE + ":get_odesys"], kind="data")
def _(v):
    """'using the alternative builder changes only which symbols are free, never the value of the right-hand side after those symbols are bound':
    the SAME hand-written kinetic model, written in each system's own symbols (looked up by name), is what both entry points return -- for the
    alternative builder also when it collects the parameter keys itself (unique keys and parameter keys of rate expressions, the keys of a
    parameter expression that overrides a name, the keys of a feed). B <-> 2 A, substances in the order B, A:
    d[B]/dt = kf*[A]**2 - kb*[B] (+ fr*(fcB - [B])),  d[A]/dt = -2*kf*[A]**2 + 2*kb*[B] (+ fr*(fcA - [A]))"""
    import sympy
    from chempy.chemistry import Reaction, Substance
    from chempy.reactionsystem import ReactionSystem
    from chempy.kinetics.ode import get_odesys, _create_odesys
    from chempy.kinetics.rates import MassAction, Arrhenius
    model = lambda kf, kb, y: [kf * y["A"] ** 2 - kb * y["B"], -2 * kf * y["A"] ** 2 + 2 * kb * y["B"]]
    sy = dict(backend=sympy)     # the rate expressions need exp: the caller of the alternative builder names the backend of the rates himself
    # rate expression with unique keys and a parameter key
    rs = ReactionSystem([Reaction({"A": 2}, {"B": 1}, MassAction(Arrhenius([3.0, 500.0], unique_keys=("Aa", "Ea")))), Reaction({"B": 1}, {"A": 2}, "kb")], "B A")
    want = lambda y, p, t: model(p["Aa"] * sympy.exp(-p["Ea"] / p["temperature"]), p["kb"], y)
    for label, build in (("alternative", lambda: _create_odesys(rs, rates_kw=sy)), ("main", lambda: get_odesys(rs, include_params=False))):
        r = _native_mismatch(build, ["B", "A"], ["Aa", "Ea", "temperature", "kb"], want)
        v.prove("keys_of_a_rate_expression." + label, not r, detail=r)
    # a name overridden by an expression: its own keys take the place of the name
    # (B = N2O4, A = NO2: substances with a composition, so that there ARE composition vectors that could be reported)
    rs2 = ReactionSystem([Reaction({"A": 2}, {"B": 1}, "k"), Reaction({"B": 1}, {"A": 2}, "k2")], [Substance("B", composition={7: 2, 8: 4}), Substance("A", composition={7: 1, 8: 2})])
    r = _native_mismatch(lambda: _create_odesys(rs2, parameter_expressions={"k": Arrhenius([3.0, 500.0])}, rates_kw=sy), ["B", "A"], ["temperature", "k2"],
                         lambda y, p, t: model(3.0 * sympy.exp(-500.0 / p["temperature"]), p["k2"], y))
    v.prove("name_overridden_by_an_expression.alternative", not r, detail=r)
    # a feed
    feed = ("fr", OrderedDict([("A", "fcA"), ("B", "fcB")]))
    want = lambda y, p, t: [m + p["fr"] * (p["fc" + s_] - y[s_]) for m, s_ in zip(model(p["k"], p["k2"], y), "BA")]
    for label, build in (("alternative", lambda: _create_odesys(rs2, rates_kw=dict(cstr_fr_fc=feed))), ("main", lambda: get_odesys(rs2, include_params=False, cstr=feed))):
        # with a feed nothing is conserved: no vector may come along as a linear invariant of this right-hand side
        r = _native_mismatch(build, ["B", "A"], ["k", "k2", "fr", "fcA", "fcB"], want, also=lambda o, x: "invariants reported with a feed: %r" % (o.linear_invariants,) if o.linear_invariants else "")
        v.prove("feed." + label, not r, detail=r)
    for label, build in (("alternative", lambda: _create_odesys(rs2)), ("main", lambda: get_odesys(rs2, include_params=False))):
        r = _native_mismatch(build, ["B", "A"], ["k", "k2"], lambda y, p, t: model(p["k"], p["k2"], y))
        v.prove("plain_names." + label, not r, detail=r)


@harness("C04", "named_argument_with_an_expression_as_default", functions=[ODE + ":get_odesys", ODE + ":_create_odesys", "chempy.util._expr:Expr.arg", "chempy.reactionsystem:ReactionSystem.rates"], kind="data")
def _(v):
    """'substituting variables, or using the alternative builder, changes only which symbols are free, never the value of the right-hand side after
    those symbols are bound', for a NAMED argument (unique key) whose stored default is itself an expression (a pre-exponential factor that depends
    on the temperature, a constant wrapped by the arithmetic of expressions): while the name is not bound the default is the value; as soon as the
    name is bound -- to a number or to another expression by a substitution, to a symbol by the alternative builder, to a number by the caller of
    ReactionSystem.rates -- the bound value is the value, exactly as for a name whose default is a plain number.
    2 A -> B, rate = k*[A]**2, d[A]/dt = -2*rate, d[B]/dt = rate; k = A_f*exp(-Ea/T) with the default A_f = 2 + T/100, Ea = 1200"""
    import math
    import sympy
    from chempy.chemistry import Reaction
    from chempy.reactionsystem import ReactionSystem
    from chempy.kinetics.ode import get_odesys, _create_odesys
    from chempy.kinetics.rates import MassAction, Arrhenius
    from chempy.util._expr import create_Poly, Constant
    TPoly = create_Poly("temperature")
    mk = lambda param: ReactionSystem([Reaction({"A": 2}, {"B": 1}, param)], "A B")
    two = lambda r: [-2 * r, r]
    sy = dict(backend=sympy)
    rs = mk(MassAction(Arrhenius([TPoly([2.0, 0.01]), 1200.0], unique_keys=("A_f", "Ea"))))
    arrh = lambda A_f, Ea, p, y: two(A_f * sympy.exp(-Ea / p["temperature"]) * y["A"] ** 2)
    r = _native_mismatch(lambda: get_odesys(rs), ["A", "B"], ["temperature"], lambda y, p, t: arrh(2.0 + 0.01 * p["temperature"], 1200.0, p, y))
    v.prove("name_not_bound.the_default_expression_is_the_value", not r, detail=r)
    r = _native_mismatch(lambda: get_odesys(rs, substitutions={"A_f": 7.0}), ["A", "B"], ["temperature"], lambda y, p, t: arrh(7.0, 1200.0, p, y))
    v.prove("name_bound_to_a_number.inlined", not r, detail=r)
    r = _native_mismatch(lambda: get_odesys(rs, substitutions={"A_f": 7.0}, include_params=False), ["A", "B"], ["temperature", "Ea"], lambda y, p, t: arrh(7.0, p["Ea"], p, y))
    v.prove("name_bound_to_a_number.other_constants_free", not r, detail=r)
    r = _native_mismatch(lambda: get_odesys(rs, substitutions={"A_f": TPoly([5.0, 0.5])}), ["A", "B"], ["temperature"], lambda y, p, t: arrh(5.0 + 0.5 * p["temperature"], 1200.0, p, y))
    v.prove("name_bound_to_another_expression", not r, detail=r)
    r = _native_mismatch(lambda: _create_odesys(rs, rates_kw=sy), ["A", "B"], ["A_f", "Ea", "temperature"], lambda y, p, t: arrh(p["A_f"], p["Ea"], p, y))
    v.prove("alternative_builder.every_declared_name_is_the_symbol_of_the_rhs", not r, detail=r)
    # the same for the one argument of a mass-action law: k named 'kf', stored as an expression that is a constant (what 'MassAction(3.0) * 1' style
    # arithmetic leaves behind): rate = kf*[A]**2
    rs_c = mk(MassAction([Constant(3.0)], unique_keys=("kf",)))
    r = _native_mismatch(lambda: get_odesys(rs_c), ["A", "B"], [], lambda y, p, t: two(3.0 * y["A"] ** 2))
    v.prove("mass_action_constant.not_bound", not r, detail=r)
    r = _native_mismatch(lambda: get_odesys(rs_c, substitutions={"kf": 4.0}), ["A", "B"], [], lambda y, p, t: two(4.0 * y["A"] ** 2))
    v.prove("mass_action_constant.bound_to_a_number", not r, detail=r)
    r = _native_mismatch(lambda: _create_odesys(rs_c), ["A", "B"], ["kf"], lambda y, p, t: two(p["kf"] * y["A"] ** 2))
    v.prove("mass_action_constant.alternative_builder", not r, detail=r)
    # the vector of rates both builders are made of: [A] = 1.5, T = 300: k = 7*exp(-4) bound, (2 + 3)*exp(-4) by default; rate = k*2.25
    try:
        bad = []
        for extra, k in (({"A_f": 7.0}, 7.0 * math.exp(-4.0)), ({}, 5.0 * math.exp(-4.0)), ({"A_f": 7.0, "Ea": 600.0}, 7.0 * math.exp(-2.0))):
            got = rs.rates(dict({"A": 1.5, "B": 0.25, "temperature": 300.0}, **extra))
            want = {"A": -2 * k * 2.25, "B": k * 2.25}
            if set(got) != set(want) or not all(abs(float(got[s]) - want[s]) <= 1e-12 * abs(want[s]) for s in want):
                bad.append((extra, dict(got), want))
        v.prove("rates_with_the_name_among_the_variables", not bad, detail=repr(bad[:2]))
    except Exception as ex:
        v.prove("rates_with_the_name_among_the_variables", False, detail=repr(ex)[:300])


class _Efficiency:
    """k = k0*eff: a rate constant [1/time] scaled by a pure number (a quantum yield, a sticking probability, a mole fraction ...); the number is an
    argument (with_argument) or a parameter key (with_key)"""

    @staticmethod
    def with_argument():
        from chempy.util._expr import Expr

        class Scaled(Expr):
            argument_names = ("k0", "eff")

            def args_dimensionality(self, **kwargs):
                return ({"time": -1}, {})

            def __call__(self, variables, backend=None, **kwargs):
                k0, eff = self.all_args(variables, backend=backend, **kwargs)
                return k0 * eff
        return Scaled

    @staticmethod
    def with_key():
        from chempy.util._expr import Expr

        class ScaledBy(Expr):
            argument_names = ("k0",)
            parameter_keys = ("eff",)

            def args_dimensionality(self, **kwargs):
                return ({"time": -1},)

            def __call__(self, variables, backend=None, **kwargs):
                (k0,) = self.all_args(variables, backend=backend, **kwargs)
                (eff,) = self.all_params(variables, backend=backend)
                return k0 * eff
        return ScaledBy


@harness("C04", "get_odesys.unit_registry.pure_numbers_written_with_a_scale", functions=[ODE + ":get_odesys", ODE + ":get_odesys.<locals>.dydt", "chempy.util._expr:Expr.dedimensionalisation",
                                                                                       "chempy.units:unitless_in_registry", "chempy.units:to_unitless"], kind="data")
def _(v):
    """'the right-hand side is N^T r as an identity in concentrations and free parameters', with a unit registry: every value that enters a rate
    -- an argument of a rate expression, a value bound by a substitution or by the constants namespace, an argument of a substituted expression --
    enters as its VALUE in registry units. A dimensionless value has no registry unit, its value is the pure number: 40 % is 0.4, 2 g/kg and
    2 mM/M are 0.002, 90 degrees are pi/2, and 0.4 written as a plain float or as a dimensionless quantity is 0.4 -- whichever way it is written
    the right-hand side is the same. A -> B, k = 3/s * eff in a registry that counts time in minutes: k = 180*eff per minute"""
    import math
    import sympy
    from chempy.chemistry import Reaction
    from chempy.reactionsystem import ReactionSystem
    from chempy.kinetics.ode import get_odesys
    from chempy.kinetics.rates import MassAction, Arrhenius, SinTemp
    from chempy.units import SI_base_registry, default_units as u
    try:
        import quantities as pq
        Scaled, ScaledBy = _Efficiency.with_argument(), _Efficiency.with_key()
        reg = dict(SI_base_registry, time=u.minute)
        mk = lambda param: ReactionSystem([Reaction({"A": 1}, {"B": 1}, param)], "A B")
        ways = (("percent", 40 * u.percent, 0.4), ("mass_ratio", 2 * u.gram / u.kg, 0.002), ("concentration_ratio", 2 * u.millimolar / u.molar, 0.002),
                ("plain_float", 0.4, 0.4), ("dimensionless_quantity", 0.4 * pq.dimensionless, 0.4))
    except Exception as ex:
        v.prove("set_up", False, detail=repr(ex)[:300])
        return
    for label, q, number in ways:
        k = 180.0 * number
        model = lambda y, p, t: [-k * y["A"], k * y["A"]]
        builds = (("argument_of_a_rate_expression", lambda: get_odesys(mk(MassAction(Scaled([3.0 / u.second, q]))), unit_registry=reg)),
                  ("named_argument_bound_by_a_substitution", lambda: get_odesys(mk(MassAction(Scaled([3.0 / u.second, 0.1], unique_keys=("k0", "eff")))), unit_registry=reg, substitutions={"eff": q})),
                  ("key_bound_by_a_substitution", lambda: get_odesys(mk(MassAction(ScaledBy([3.0 / u.second]))), unit_registry=reg, substitutions={"eff": q})),
                  ("key_bound_by_the_namespace", lambda: get_odesys(mk(MassAction(ScaledBy([3.0 / u.second]))), unit_registry=reg, constants=_Constants(eff=q))))
        for how, build in builds:
            r = _native_mismatch(build, ["A", "B"], [], model, rtol=1e-12)
            v.prove("%s.%s" % (how, label), not r, detail=r)
    # an argument of a SUBSTITUTED expression: the temperature follows T(t) = 300 K + 10 K * sin(w*t + phase), w = 0.5/s = 30 per minute;
    # k = 1000/s * exp(-2000 K / T) = 60000 per minute * exp(-2000/T(t)); the phase is an angle: 90 degrees = pi/2 (radians are the pure number)
    rs = mk(MassAction(Arrhenius([1e3 / u.second, 2000.0 * u.kelvin])))
    for label, phase, number in (("degrees", 90 * u.degree, math.pi / 2), ("radians", 0.5 * u.radian, 0.5), ("plain_float", 0.5, 0.5)):
        def model(y, p, t):
            k_t = 6e4 * sympy.exp(-2000.0 / (300.0 + 10.0 * sympy.sin(30.0 * t + number)))
            return [-k_t * y["A"], k_t * y["A"]]
        r = _native_mismatch(lambda: get_odesys(rs, unit_registry=reg, substitutions={"temperature": SinTemp([300 * u.kelvin, 10 * u.kelvin, 0.5 / u.second, phase])}),
                             ["A", "B"], [], model, rtol=1e-12)
        v.prove("argument_of_a_substituted_expression.phase_in_" + label, not r, detail=r)


@harness("C04", "unique_keys_below_arithmetic_nodes", functions=[ODE + ":get_odesys", ODE + ":get_odesys.<locals>._reg_unique", ODE + ":_create_odesys", "chempy.util._expr:Expr.all_unique_keys",
                                                                "chempy.kinetics.rates:MassAction"], kind="data")
def _(v):
    """'parameter names matching parameter keys … keeping rate constants as free parameters, substituting variables, or using the alternative builder
    changes only which symbols are free': the names of a rate expression are ALL the names in it, at whatever depth -- also those of a rate constant
    that was scaled, divided or added up with the arithmetic of expressions (k/4, 2*k, kf/K, k1 + k2). Both builders declare exactly these names
    when constants are kept free, each of them can be bound by a substitution, and every build is the same kinetic model.
    2 A -> B, rate = k*[A]**2; kf = A_f*exp(-Ea_f/T) (defaults 2, 1200), K = A_K*exp(-Ea_K/T) (defaults 5, 300)"""
    import sympy
    from chempy.chemistry import Reaction
    from chempy.reactionsystem import ReactionSystem
    from chempy.kinetics.ode import get_odesys, _create_odesys
    from chempy.kinetics.rates import MassAction, Arrhenius
    mk = lambda param: ReactionSystem([Reaction({"A": 2}, {"B": 1}, param)], "A B")
    sy = dict(backend=sympy)
    kf = lambda: Arrhenius([2.0, 1200.0], unique_keys=("A_f", "Ea_f"))
    K = lambda: Arrhenius([5.0, 300.0], unique_keys=("A_K", "Ea_K"))
    arrh = lambda A_, E_, T: A_ * sympy.exp(-E_ / T)
    shapes = (("divided_by_a_number", lambda: MassAction(kf()) / 4.0, lambda c, T: arrh(c["A_f"], c["Ea_f"], T) / 4.0, ["A_f", "Ea_f"]),
              ("multiplied_by_a_number", lambda: MassAction(kf()) * 2.0, lambda c, T: arrh(c["A_f"], c["Ea_f"], T) * 2.0, ["A_f", "Ea_f"]),
              ("divided_by_another_named_expression", lambda: MassAction(kf()) / K(), lambda c, T: arrh(c["A_f"], c["Ea_f"], T) / arrh(c["A_K"], c["Ea_K"], T), ["A_f", "Ea_f", "A_K", "Ea_K"]),
              ("sum_of_two_named_expressions", lambda: MassAction(kf() + K()), lambda c, T: arrh(c["A_f"], c["Ea_f"], T) + arrh(c["A_K"], c["Ea_K"], T), ["A_f", "Ea_f", "A_K", "Ea_K"]))
    defaults = {"A_f": 2.0, "Ea_f": 1200.0, "A_K": 5.0, "Ea_K": 300.0}
    for label, make, k_of, keys in shapes:
        try:
            rs = mk(make())
        except Exception as ex:
            v.prove(label + ".set_up", False, detail=repr(ex)[:300])
            continue
        model = lambda consts: (lambda y, p, t: [-2 * k_of(consts(p), p["temperature"]) * y["A"] ** 2, k_of(consts(p), p["temperature"]) * y["A"] ** 2])
        r = _native_mismatch(lambda: get_odesys(rs), ["A", "B"], ["temperature"], model(lambda p: defaults))
        v.prove(label + ".inlined", not r, detail=r)
        r = _native_mismatch(lambda: get_odesys(rs, include_params=False), ["A", "B"], ["temperature"] + keys, model(lambda p: p), unique={k_: defaults[k_] for k_ in keys})
        v.prove(label + ".every_name_free", not r, detail=r)
        r = _native_mismatch(lambda: _create_odesys(rs, rates_kw=sy), ["A", "B"], ["temperature"] + keys, model(lambda p: p))
        v.prove(label + ".every_name_free.alternative_builder", not r, detail=r)
        # each name on its own can be bound by a substitution (a name that IS in a rate expression is not 'unknown')
        for key in keys:
            r = _native_mismatch(lambda: get_odesys(rs, substitutions={key: 7.0}), ["A", "B"], ["temperature"], model(lambda p: dict(defaults, **{key: 7.0})))
            v.prove("%s.%s_bound_by_a_substitution" % (label, key), not r, detail=r)
        rest = keys[1:]
        r = _native_mismatch(lambda: get_odesys(rs, substitutions={keys[0]: 7.0}, include_params=False), ["A", "B"], ["temperature"] + rest, model(lambda p: dict(p, **{keys[0]: 7.0})),
                             unique={k_: defaults[k_] for k_ in rest})
        v.prove(label + ".one_name_bound_the_others_free", not r, detail=r)
