"""Assumed contract 5.1: abstraction of the `quantities` package.

Quantity(mag, units) with units = {unit symbol name: exponent}.  Every unit symbol has a
scale (SI value of one unit; concrete Fraction or a *symbolic* positive real for the generic
units that stand for "any compatible unit") and a dimension vector over the 7 SI base
dimensions.  Behaviour pinned down against the real package (validated every run by
contracts/C09 `abstraction_validation`):
  * a*b, a/b, a**n combine magnitudes and add/scale exponents; equal symbols cancel, different
    symbols of the same dimension do NOT (mM/M stays mM/M),
  * a+b, a-b, comparisons: b is rescaled to a's units, ValueError when dimensions differ
    (a plain number counts as dimensionless),
  * float(q) / math.f(q) use the raw magnitude whatever the units,
  * numpy.f(q) and n ** q raise ValueError unless the unit expression is empty,
  * .simplified rewrites to SI base units, .rescale(u) raises ValueError on dimension mismatch.
The class is called `Quantity` because chempy.units.is_quantity tests the class name.
"""
from __future__ import annotations

import fractions
import itertools

import z3

from .sym import Sym, to_z3, wrap_num, cur, fresh_name, sym_pow, Unsupported

Fr = fractions.Fraction
DIMS = ("length", "mass", "time", "current", "temperature", "luminous_intensity", "amount")
BASE = ("m", "kg", "s", "A", "K", "cd", "mol")


def dim(**kw):
    return tuple(kw.get(d, 0) for d in DIMS)


class UnitTable:
    def __init__(self):
        self.scale = {}
        self.dim = {}
        for b, d in zip(BASE, DIMS):
            self.add(b, 1, dim(**{d: 1}))

    def add(self, name, scale, dimv):
        self.scale[name] = scale
        self.dim[name] = tuple(dimv)

    def generic(self, name, dimv):
        """a unit of the given dimension with an unknown positive scale ('any compatible unit')"""
        s = z3.Real("scale!" + name)
        cur().assume(s > 0)
        self.add(name, Sym(s), dimv)
        return Quantity(1, {name: 1}, self)

    def dim_of(self, units):
        v = [0] * 7
        for n, e in units.items():
            for i, x in enumerate(self.dim[n]):
                v[i] += x * e
        return tuple(v)

    def scale_of(self, units):
        """SI value of one `units` (product of scale**exp)"""
        r = 1
        for n, e in sorted(units.items()):
            sc = self.scale[n]
            e = Fr(e)
            if e.denominator == 1:
                r = r * (sc ** int(e)) if e >= 0 else r / (sc ** int(-e))
            else:
                r = r * sym_pow(sc, e) if isinstance(sc, Sym) else r * (float(sc) ** float(e))
        return r


def std_table():
    t = UnitTable()
    L, M, T, I, TH, N = (dim(length=1), dim(mass=1), dim(time=1), dim(current=1), dim(temperature=1), dim(amount=1))
    t.add("g", Fr(1, 1000), M)
    t.add("mg", Fr(1, 10 ** 6), M)
    t.add("cm", Fr(1, 100), L)
    t.add("dm", Fr(1, 10), L)
    t.add("mm", Fr(1, 1000), L)
    t.add("nm", Fr(1, 10 ** 9), L)
    t.add("L", Fr(1, 1000), dim(length=3))
    t.add("min", 60, T)
    t.add("h", 3600, T)
    t.add("ms", Fr(1, 1000), T)
    t.add("J", 1, dim(mass=1, length=2, time=-2))
    t.add("kJ", 1000, dim(mass=1, length=2, time=-2))
    t.add("N", 1, dim(mass=1, length=1, time=-2))
    t.add("Pa", 1, dim(mass=1, length=-1, time=-2))
    t.add("bar", 10 ** 5, dim(mass=1, length=-1, time=-2))
    t.add("atm", 101325, dim(mass=1, length=-1, time=-2))
    t.add("C", 1, dim(current=1, time=1))
    t.add("V", 1, dim(mass=1, length=2, time=-3, current=-1))
    t.add("M", 1000, dim(amount=1, length=-3))
    t.add("mM", 1, dim(amount=1, length=-3))
    t.add("uM", Fr(1, 1000), dim(amount=1, length=-3))
    t.add("molal", 1, dim(amount=1, mass=-1))
    t.add("cP", Fr(1, 1000), dim(mass=1, length=-1, time=-1))
    t.add("mmol", Fr(1, 1000), N)
    return t


ALIASES = {
    "metre": "m", "meter": "m", "m": "m", "kilogram": "kg", "kg": "kg", "second": "s", "s": "s", "ampere": "A", "A": "A",
    "kelvin": "K", "Kelvin": "K", "K": "K", "mole": "mol", "mol": "mol", "candela": "cd", "gram": "g", "g": "g", "mg": "mg",
    "centimeter": "cm", "centimetre": "cm", "cm": "cm", "decimeter": "dm", "decimetre": "dm", "dm": "dm", "mm": "mm", "nm": "nm",
    "nanometer": "nm", "liter": "L", "litre": "L", "L": "L", "minute": "min", "hour": "h", "ms": "ms", "joule": "J", "J": "J",
    "kilojoule": "kJ", "kJ": "kJ", "newton": "N", "N": "N", "pascal": "Pa", "Pa": "Pa", "bar": "bar", "atm": "atm", "coulomb": "C",
    "C": "C", "volt": "V", "V": "V", "molar": "M", "M": "M", "mM": "mM", "uM": "uM", "molal": "molal", "centipoise": "cP", "cP": "cP",
    "mmol": "mmol",
}


class Units:
    """stands for chempy.units.default_units: attribute access gives the unit quantities"""
    _pyvc_symbolic = False

    def __init__(self, table=None, hide=()):
        self._table = table or std_table()
        self._hide = set(hide)

    def __getattr__(self, name):
        if name.startswith("_"):
            raise AttributeError(name)
        if name in self._hide or name not in ALIASES:
            raise AttributeError("units object has no attribute %r" % name)
        return Quantity(1, {ALIASES[name]: 1}, self._table)


class Dimensionality(dict):
    """what .dimensionality returns: compares equal when the unit expressions are identical"""

    def __eq__(self, other):
        if isinstance(other, dict):
            return dict.__eq__(self, other)
        # a real `quantities` object: only pq.dimensionless (empty dimensionality) can be meant
        d = getattr(other, "dimensionality", other)
        try:
            return len(self) == 0 and len(d) == 0
        except TypeError:
            return False

    def __ne__(self, other):
        return not self.__eq__(other)

    __hash__ = None


class NPCall:
    """uninterpreted result of a numpy array routine (5.2: delegation shape only)"""
    _pyvc_symbolic = True

    def __init__(self, name, args, kwargs=None):
        self.name, self.args, self.kwargs = name, args, kwargs or {}

    def __mul__(self, o):
        if isinstance(o, Quantity):
            return NotImplemented
        if isinstance(o, (int, float, Fr)) and o == 1:
            return self
        return NPCall("mul", (self, o))

    __rmul__ = __mul__

    def __iter__(self):
        if self.name == "polyfit":      # deg + 1 coefficients, highest power first
            return iter([NPCall("polyfit_coef", (self.args, i)) for i in range(int(self.args[2]) + 1)])
        raise TypeError("'NPCall' object is not iterable")

    def __repr__(self):
        return "NP.%s%r" % (self.name, self.args)


class Quantity:
    _pyvc_symbolic = True
    __array_priority__ = 2000

    def __init__(self, mag, units, table):
        self.mag = mag
        self.u = {k: v for k, v in units.items() if v != 0}
        self.t = table

    def __repr__(self):
        return "Q(%r, %r)" % (self.mag, self.u)

    # ---- helpers
    def _dimless_number(self, other):
        return not isinstance(other, Quantity)

    def _coerce(self, other):
        if isinstance(other, Quantity):
            return other
        if hasattr(other, "dimensionality") and hasattr(other, "magnitude") and not isinstance(other, Sym):
            # an object of the real package (e.g. pq.dimensionless used as default target unit)
            if len(other.dimensionality) != 0:
                raise Unsupported("mixing the unit abstraction with a dimensional object of the real quantities package")
            return Quantity(float(other.magnitude), {}, self.t)
        return Quantity(other, {}, self.t)

    def _convert_mag_to(self, units):
        """magnitude of self expressed in `units` (same dimension required)"""
        if self.u == units:
            return self.mag
        if self.t.dim_of(self.u) != self.t.dim_of(units):
            raise ValueError("Unable to convert between units of %r and %r" % (self.u, units))
        ratio = {}
        for k, v in self.u.items():
            ratio[k] = ratio.get(k, 0) + v
        for k, v in units.items():
            ratio[k] = ratio.get(k, 0) - v
        ratio = {k: v for k, v in ratio.items() if v != 0}
        return self.mag * self.t.scale_of(ratio)

    # ---- arithmetic
    def __mul__(self, o):
        o = self._coerce(o)
        u = dict(self.u)
        for k, v in o.u.items():
            u[k] = u.get(k, 0) + v
        return Quantity(self.mag * o.mag, u, self.t)

    __rmul__ = __mul__

    def __truediv__(self, o):
        o = self._coerce(o)
        u = dict(self.u)
        for k, v in o.u.items():
            u[k] = u.get(k, 0) - v
        return Quantity(self.mag / o.mag, u, self.t)

    def __rtruediv__(self, o):
        return self._coerce(o) / self

    def __pow__(self, n):
        if isinstance(n, Quantity):
            if n.u:
                raise ValueError("exponent must be dimensionless")
            n = n.mag
        if isinstance(n, Sym):
            if self.u:
                raise Unsupported("symbolic exponent on a dimensional quantity")
            return Quantity(sym_pow(self.mag, n), {}, self.t)
        nn = Fr(n).limit_denominator(1000) if not isinstance(n, int) else n
        return Quantity(sym_pow(self.mag, n) if isinstance(self.mag, Sym) else self.mag ** n, {k: v * nn for k, v in self.u.items()}, self.t)

    def __rpow__(self, base):
        if self.u:
            raise ValueError("Quantities must be dimensionless to be an exponent")
        return sym_pow(base, self.mag) if isinstance(self.mag, Sym) else base ** self.mag

    def __neg__(self):
        return Quantity(-self.mag, self.u, self.t)

    def __pos__(self):
        return self

    def __abs__(self):
        return Quantity(abs(self.mag), self.u, self.t)

    def __add__(self, o):
        o = self._coerce(o)
        return Quantity(self.mag + o._convert_mag_to(self.u), self.u, self.t)

    def __radd__(self, o):
        return self._coerce(o) + self

    def __sub__(self, o):
        o = self._coerce(o)
        return Quantity(self.mag - o._convert_mag_to(self.u), self.u, self.t)

    def __rsub__(self, o):
        return self._coerce(o) - self

    def _cmp(self, o, op):
        if not isinstance(o, Quantity) and not (hasattr(o, "dimensionality") and hasattr(o, "magnitude") and not isinstance(o, Sym)):
            # the real package compares a quantity with a bare number by MAGNITUDE ONLY, whatever the units are
            # ((3*metre) == 3 and percent == 1 are True there); the abstraction has to say the same (validated in C09.abstraction_validation)
            return op(self.mag, o)
        o = self._coerce(o)
        return op(self.mag, o._convert_mag_to(self.u))

    def __lt__(self, o): return self._cmp(o, lambda a, b: a < b)
    def __le__(self, o): return self._cmp(o, lambda a, b: a <= b)
    def __gt__(self, o): return self._cmp(o, lambda a, b: a > b)
    def __ge__(self, o): return self._cmp(o, lambda a, b: a >= b)

    def __eq__(self, o):
        try:
            return self._cmp(o, lambda a, b: a == b)
        except ValueError:
            return False

    def __ne__(self, o):
        r = self.__eq__(o)
        return ~r if isinstance(r, Sym) else (not r)

    __hash__ = object.__hash__

    # ---- quantities API
    @property
    def magnitude(self):
        return self.mag

    @property
    def units(self):
        return Quantity(1, self.u, self.t)

    @property
    def dimensionality(self):
        return Dimensionality(self.u)

    @property
    def simplified(self):
        d = self.t.dim_of(self.u)
        base = {b: e for b, e in zip(BASE, d) if e != 0}
        return Quantity(self.mag * self.t.scale_of(self.u), base, self.t)

    def rescale(self, target):
        if isinstance(target, Dimensionality):
            target = Quantity(1, dict(target), self.t)
        if not isinstance(target, Quantity):
            if self.t.dim_of(self.u) != (0,) * 7:
                raise ValueError("Unable to convert to dimensionless")
            return Quantity(self.mag * self.t.scale_of(self.u), {}, self.t)
        return Quantity(self._convert_mag_to(target.u), target.u, self.t)

    def item(self):
        return self.mag

    # array-valued magnitudes (lists / object arrays of scalars)
    def __getitem__(self, idx):
        if isinstance(self.mag, (Sym, int, float, Fr)):
            raise TypeError("'Quantity' scalar is not subscriptable")
        return Quantity(self.mag[idx], self.u, self.t)

    def __len__(self):
        if isinstance(self.mag, (Sym, int, float, Fr)):
            raise TypeError("len() of unsized object")
        return len(self.mag)

    def __iter__(self):
        if isinstance(self.mag, (Sym, int, float, Fr)):
            raise TypeError("'Quantity' scalar is not iterable")
        return iter([Quantity(m, self.u, self.t) for m in self.mag])

    @property
    def ndim(self):
        return getattr(self.mag, "ndim", 0) if not isinstance(self.mag, (list, tuple)) else 1

    @property
    def shape(self):
        if isinstance(self.mag, (list, tuple)):
            return (len(self.mag),)
        return tuple(getattr(self.mag, "shape", ()))

    @property
    def size(self):
        n = 1
        for d in self.shape:
            n *= d
        return n

    def __getattr__(self, name):
        # attributes a real quantities.Quantity (an ndarray subclass) has and this abstraction does not model: asking for one is a limit of the
        # abstraction (Unsupported cannot be caught by the `except AttributeError` clauses of the code under test), anything else is a real
        # AttributeError
        if not name.startswith("_"):
            import numpy as _np
            if hasattr(_np.ndarray, name):
                from .sym import Unsupported
                raise Unsupported("the unit abstraction does not model Quantity.%s" % name)
        raise AttributeError(name)

    def raw_float(self):
        """float(q): the magnitude, whatever the units"""
        return self.mag

    # ---- physical value (for specifications): SI magnitude and dimension
    def si(self):
        return self.mag * self.t.scale_of(self.u)

    def dimv(self):
        return self.t.dim_of(self.u)


def si_value(x):
    return x.si() if isinstance(x, Quantity) else x


def dim_of(x):
    return x.dimv() if isinstance(x, Quantity) else (0,) * 7
