# -*- coding: utf-8 -*-
"""Bounded stand-ins for C16: rate-constant models evaluate to their defining formulas under every backend.

Oracle side (this file only): the formulas of the property statement written out with `math`, the constants
R = 8.314472 J/(K mol) and kB/h = 2.083664399411865e10 1/(K s) that chempy's numeric path documents (and, for the
constants-object path, kB = 1.3806504e-23, h = 6.62606896e-34 of CODATA 2006 as shipped by `quantities`); the stand-in
`constants` checks those against CODATA 2018 to 1e-5.  Expression trees are generated as plain nested tuples and
evaluated by `tree_eval` below; the same tuples are turned into chempy expressions by `tree_build` using only the
public constructors and Python operators.

Stand-ins
  constants                 _get_R / _get_kB_over_h / default_constants vs CODATA 2018 (1e-5)                      (exhaustive list)
  param_sets                ArrheniusParam / EyringParam (+WithUnits): value, symbolic-then-substituted value, from_rateconst_at_T
  param_in_reaction         Reaction(..., param).rate(vars) == net stoichiometry * param(T) * prod c^nu, orders 1..3;
                            floats (math, numpy), sympy symbols then substituted, quantities with the unit-aware Backend()
  param_in_reaction_units_default_backend
                            the same with quantities and the default backend of Reaction.rate (energies in J, kJ, cal per mol)
  expr_classes              every expression class at random arguments: floats (math, numpy), quantities in mixed units (Backend()),
                            sympy symbols then substituted; unique-key overrides, string arguments, nested expressions, defaults
  expr_classes_units_default_backend
                            the same classes with quantities in non-coherent units and the default backend (math)
  log10_symbolic            Log10(...) evaluated with backend=sympy and substituted
  expr_trees                random trees over + - * / ** and negation with reflected plain-number operands and the shortcut
                            operands 0 and 1, leaves = Constant, Symbol/str, Arrhenius, polynomials, GibbsEqConst, Exp;
                            floats, sympy, quantities
  massaction_algebra        MassAction (UnaryWrapper) times/over expressions and numbers stays a MassAction whose rate is
                            (coefficient o operand) * concentration product

Tolerances: 1e-10 * (1 + |exponent of every exp involved|) relative for closed formulas, 1e-9 relative for trees
(ill-conditioned trees, where a 1e-13 perturbation of the leaves moves the value by more than 1e-10 relative, are
regenerated), 2e-9 when unit conversions are involved.
"""
from __future__ import annotations

import math

from . import _par

R_NUM = 8.314472
KBH_NUM = 2.083664399411865234375e10
KB_06, H_06 = 1.3806504e-23, 6.62606896e-34
KBH_06 = KB_06 / H_06
CODATA18_R = 8.314462618
CODATA18_KBH = 2.083661912e10


# ------------------------------------------------------------------------------------------------ small helpers
def _be(name):
    if name is None:
        return None
    if name == "Backend":
        from chempy.units import Backend
        return Backend()
    return __import__(name)


def _mag(x, unit=None):
    """plain float of a result; quantities are converted to `unit` (magnitude as is when unit is None)"""
    if hasattr(x, "dimensionality"):
        if unit is None:
            return float(x.magnitude)
        from chempy.units import to_unitless
        return float(to_unitless(x, unit))
    return float(x)


def _close(got, want, tol):
    if not (math.isfinite(got) and math.isfinite(want)):
        return False
    return abs(got - want) <= tol * max(abs(got), abs(want)) + 1e-300


def _U():
    from chempy.units import default_units as u
    return u


def _q(v, kind, choice):
    """coherent value v (K, s, 1/s, M, J/mol, ...) expressed in one of several units of that kind"""
    u = _U()
    table = {
        "T": [(u.K, 1.0), (u.kK, 1e3)],
        "time": [(u.s, 1.0), (u.minute, 60.0)],
        "per_time": [(1 / u.s, 1.0), (1 / u.minute, 1 / 60.0)],
        "conc": [(u.molar, 1.0), (u.mol / u.m3, 1e-3)],
        "energy": [(u.J / u.mol, 1.0), (u.kilojoule / u.mol, 1e3), (u.cal / u.mol, 4.184)],
        "entropy": [(u.J / u.mol / u.K, 1.0), (u.cal / u.mol / u.K, 4.184)],
        "T_per_time": [(u.K / u.s, 1.0), (u.K / u.minute, 1 / 60.0)],
        "density": [(u.kg / u.dm3, 1.0), (u.g / u.cm3, 1.0), (u.kg / u.m3, 1e-3)],
        "doserate": [(u.gray / u.s, 1.0), (u.gray / u.minute, 1 / 60.0)],
        "yield": [(u.mol / u.J, 1.0), (u.umol / u.J, 1e-6)],
    }[kind]
    unit, f = table[choice % len(table)]
    return (v / f) * unit


REACS = [({"A": 1}, 1), ({"A": 1, "B": 1}, 2), ({"A": 2}, 2), ({"A": 2, "B": 1}, 3), ({"A": 1, "B": 1, "C": 1}, 3), ({"A": 3}, 3)]


def _rxn(idx, param=None, prod=None):
    from chempy import Reaction
    reac, order = REACS[idx]
    return Reaction(dict(reac), prod or {"P": 1}, param), order


def _cprod(idx, conc):
    p = 1.0
    for k, nu in REACS[idx][0].items():
        p *= conc[k] ** nu
    return p


# ================================================================================================ constants
def run_constants(col):
    # the two private helpers are read where the modules have them; where they do not (renamed, inlined) the same constants are read off the public
    # equations: R = Ea / (T * -ln(arrhenius_equation(1, Ea, T))) and kB/h = eyring_equation(0, 0, T) / T
    import math
    from chempy.kinetics import arrhenius as _arr, eyring as _eyr
    from chempy.units import default_constants as dc, default_units as u, to_unitless, Backend

    def _get_R(constants=None, units=None):
        f = getattr(_arr, "_get_R", None)
        if f is not None:
            return f(constants, units)
        if constants is None:
            return 8314.0 / (300.0 * -math.log(_arr.arrhenius_equation(1.0, 8314.0, 300.0)))
        k = _arr.arrhenius_equation(1.0, 8314.0 * u.J / u.mol, 300.0 * u.K, constants=constants, units=units, backend=Backend())
        return (8314.0 / (300.0 * -math.log(float(to_unitless(k))))) * u.J / u.mol / u.K

    def _get_kB_over_h(constants=None, units=None):
        f = getattr(_eyr, "_get_kB_over_h", None)
        if f is not None:
            return f(constants, units)
        if constants is None:
            return _eyr.eyring_equation(0.0, 0.0, 300.0) / 300.0
        k = _eyr.eyring_equation(0.0 * u.J / u.mol, 0.0 * u.J / u.mol / u.K, 300.0 * u.K, constants=constants, units=units, backend=Backend())
        return k / (300.0 * u.K)
    items = [("_get_R()", lambda: float(_get_R()), CODATA18_R),
             ("_get_R(default_constants, default_units)", lambda: float(to_unitless(_get_R(dc, u), u.J / u.mol / u.K)), CODATA18_R),
             ("_get_kB_over_h()", lambda: float(_get_kB_over_h()), CODATA18_KBH),
             ("_get_kB_over_h(default_constants, default_units)", lambda: float(to_unitless(_get_kB_over_h(dc, u), 1 / u.K / u.s)), CODATA18_KBH),
             ("stand-in R used as oracle", lambda: R_NUM, CODATA18_R), ("stand-in kB/h (2006)", lambda: KBH_06, CODATA18_KBH)]
    for name, f, want in items:
        try:
            got = f()
            ok = _close(got, want, 1e-5)
            det = "%s = %r, CODATA 2018 %r" % (name, got, want)
        except Exception as e:
            ok, det = False, "%s raised %s: %s" % (name, type(e).__name__, e)
        col.add({"constant": name}, ok, det)


# ================================================================================================ param_sets
def gen_param(seed, i):
    rng = _par.sub_rng(seed, "C16", "param", i)
    kind = rng.choice(["arrhenius", "eyring"])
    c = {"kind": kind, "T": rng.uniform(200, 2000), "T2": rng.uniform(200, 2000), "mode": rng.choice(["float", "float", "units", "units_noconst"]),
         "backend": rng.choice([None, "math", "numpy", "sympy"]), "eunit": rng.randrange(3), "sunit": rng.randrange(2),
         "k": 10 ** rng.uniform(-6, 12)}
    if kind == "arrhenius":
        c["p"] = [10 ** rng.uniform(-3, 16), rng.choice([0.0, rng.uniform(0, 3e5), rng.uniform(0, 3e5), -rng.uniform(0, 2e4)])]
    else:
        c["p"] = [rng.uniform(0, 3e5), rng.uniform(-200, 200)]
    return c


def _k_oracle(kind, p, T, kbh=KBH_NUM):
    if kind == "arrhenius":
        return p[0] * math.exp(-p[1] / (R_NUM * T)), abs(p[1] / (R_NUM * T))
    return kbh * T * math.exp(p[1] / R_NUM) * math.exp(-p[0] / (R_NUM * T)), abs(p[1] / R_NUM) + abs(p[0] / (R_NUM * T))


def check_param(c):
    import sympy
    from chempy.kinetics.arrhenius import ArrheniusParam, ArrheniusParamWithUnits
    from chempy.kinetics.eyring import EyringParam, EyringParamWithUnits
    u = _U()
    kind, p, T, T2 = c["kind"], c["p"], c["T"], c["T2"]
    msgs = []
    try:
        if c["mode"] == "float":
            be = _be(c["backend"])
            obj = (ArrheniusParam if kind == "arrhenius" else EyringParam)(p[0], p[1])
            want, ex = _k_oracle(kind, p, T)
            got = _mag(obj(T, backend=be))
            if not _close(got, want, 1e-10 * (1 + ex)):
                msgs.append("%s%r(T=%r, backend=%s) = %r, formula gives %r" % (kind, tuple(p), T, c["backend"], got, want))
            Ts = sympy.Symbol("T", positive=True)
            gs = float(obj(Ts, backend=sympy).subs(Ts, T))
            if not _close(gs, want, 1e-10 * (1 + ex)):
                msgs.append("symbolic in T then substituted: %r, formula gives %r" % (gs, want))
            if kind == "arrhenius":
                k, Ea = c["k"], p[1]
                kw = {} if be is None else {"backend": be}
                ap = ArrheniusParam.from_rateconst_at_T(Ea, (T, k), **kw)
                wA, ex = k * math.exp(Ea / (R_NUM * T)), abs(Ea / (R_NUM * T))
                if not _close(_mag(ap.A), wA, 1e-10 * (1 + ex)) or _mag(ap.Ea) != Ea:
                    msgs.append("from_rateconst_at_T(%r, (%r, %r)) -> A = %r, Ea = %r; expected A = %r" % (Ea, T, k, ap.A, ap.Ea, wA))
                back = _mag(ap(T, backend=be))
                if not _close(back, k, 1e-10 * (1 + ex)):
                    msgs.append("round trip: from_rateconst_at_T(...)(T) = %r, given k = %r" % (back, k))
                w2 = k * math.exp(-Ea / R_NUM * (1 / T2 - 1 / T))
                g2 = _mag(ap(T2, backend=be))
                if not _close(g2, w2, 1e-10 * (1 + ex + abs(Ea / (R_NUM * T2)))):
                    msgs.append("from_rateconst_at_T(...)(T2=%r) = %r, expected %r" % (T2, g2, w2))
        elif c["mode"] == "units_noconst":
            # quantities with the plain parameter classes: units object given, no constants object (numeric R and kB/h get units)
            Tq = T * u.K
            be = _be({"sympy": "Backend"}.get(c["backend"], c["backend"]))
            kw = {} if be is None else {"backend": be}
            if kind == "arrhenius":
                obj = ArrheniusParam(p[0] / u.s, _q(p[1], "energy", c["eunit"]))
            else:
                obj = EyringParam(_q(p[0], "energy", c["eunit"]), _q(p[1], "entropy", c["sunit"] if c["backend"] == "sympy" else 0))
            want, ex = _k_oracle(kind, p, T)
            got = _mag(obj(Tq, units=u, **kw), 1 / u.s)
            if not _close(got, want, 2e-9 * (1 + ex)):
                msgs.append("%s%r as quantities (unit choice %d/%d)(%r K, units=default_units, constants=None, backend=%s) = %r 1/s, "
                            "formula gives %r" % (kind, tuple(p), c["eunit"], c["sunit"], T, c["backend"], got, want))
            if kind == "arrhenius":
                k, Ea = c["k"], p[1]
                ap = ArrheniusParam.from_rateconst_at_T(_q(Ea, "energy", c["eunit"]), (Tq, k / u.s), units=u)
                back = _mag(ap(Tq, units=u, **kw), 1 / u.s)
                if not _close(back, k, 2e-9 * (1 + abs(Ea / (R_NUM * T)))):
                    msgs.append("round trip with units=default_units, constants=None: %r 1/s, given k = %r 1/s" % (back, k))
        else:
            Tq = T * u.K
            if kind == "arrhenius":
                obj = ArrheniusParamWithUnits(p[0] / u.s, _q(p[1], "energy", c["eunit"]))
                want, ex = _k_oracle(kind, p, T)
            else:
                obj = EyringParamWithUnits(_q(p[0], "energy", c["eunit"]), _q(p[1], "entropy", c["sunit"]))
                want, ex = _k_oracle(kind, p, T, KBH_06)
            got = _mag(obj(Tq), 1 / u.s)
            if not _close(got, want, 2e-9 * (1 + ex)):
                msgs.append("%sWithUnits(%r in unit choice %d/%d)(%r K) = %r 1/s, formula gives %r" % (kind, p, c["eunit"], c["sunit"], T, got, want))
            if kind == "arrhenius":
                k, Ea = c["k"], p[1]
                ap = ArrheniusParamWithUnits.from_rateconst_at_T(_q(Ea, "energy", c["eunit"]), (Tq, k / u.s))
                back = _mag(ap(Tq), 1 / u.s)
                if not _close(back, k, 2e-9 * (1 + abs(Ea / (R_NUM * T)))):
                    msgs.append("WithUnits round trip: %r 1/s, given k = %r 1/s" % (back, k))
    except Exception as e:
        return False, "raised %s: %s" % (type(e).__name__, e)
    return not msgs, "; ".join(msgs)


# ================================================================================================ param_in_reaction
def gen_prx(seed, i, units_default=False):
    rng = _par.sub_rng(seed, "C16", "prx-d" if units_default else "prx", i)
    kind = rng.choice(["arrhenius", "eyring"])
    c = {"kind": kind, "T": rng.uniform(200, 2000), "rxn": rng.randrange(len(REACS)),
         "conc": {k: 10 ** rng.uniform(-3, 1) for k in "ABCP"}, "cunit": {k: rng.randrange(2) for k in "ABCP"},
         "eunit": rng.randrange(3), "sunit": rng.randrange(2),
         "mode": "units_default" if units_default else rng.choice(["math", "numpy", "sympy", "units_Backend", "units_Backend"])}
    if kind == "arrhenius":
        c["p"] = [10 ** rng.uniform(-3, 12), rng.uniform(0, 2e5)]
    else:
        c["p"] = [rng.uniform(0, 2e5), rng.uniform(-150, 150)]
    return c


def check_prx(c):
    import sympy
    from chempy.kinetics.arrhenius import ArrheniusParam, ArrheniusParamWithUnits
    from chempy.kinetics.eyring import EyringParam, EyringParamWithUnits
    u = _U()
    kind, p, T, conc, mode = c["kind"], c["p"], c["T"], c["conc"], c["mode"]
    reac, order = REACS[c["rxn"]]
    try:
        if mode.startswith("units"):
            if kind == "arrhenius":
                param = ArrheniusParamWithUnits(p[0] / u.s / u.molar ** (order - 1), _q(p[1], "energy", c["eunit"]))
                k, ex = _k_oracle(kind, p, T)
            else:
                param = EyringParamWithUnits(_q(p[0], "energy", c["eunit"]), _q(p[1], "entropy", c["sunit"]))
                k, ex = _k_oracle(kind, p, T, KBH_06)           # standard state 1 M
            rxn, _ = _rxn(c["rxn"], param)
            variables = {s: _q(conc[s], "conc", c["cunit"][s]) for s in conc}
            variables["temperature"] = T * u.K
            kw = {"backend": _be("Backend")} if mode == "units_Backend" else {}
            rates = rxn.rate(variables, **kw)
            got = {s: _mag(v, u.molar / u.s) for s, v in rates.items()}
            tol = 2e-9 * (1 + ex)
        else:
            param = (ArrheniusParam if kind == "arrhenius" else EyringParam)(p[0], p[1])
            k, ex = _k_oracle(kind, p, T)
            rxn, _ = _rxn(c["rxn"], param)
            if mode == "sympy":
                syms = {s: sympy.Symbol("c_" + s, positive=True) for s in conc}
                Ts = sympy.Symbol("T", positive=True)
                rates = rxn.rate(dict(syms, temperature=Ts), backend=sympy)
                subs = {syms[s]: conc[s] for s in conc}
                subs[Ts] = T
                got = {}
                for s, v in rates.items():
                    v = v.magnitude if hasattr(v, "dimensionality") else v     # Eyring's default standard state is 1*molar
                    got[s] = float(sympy.sympify(v.item() if hasattr(v, "item") else v).subs(subs))
            else:
                rates = rxn.rate(dict(conc, temperature=T), backend=_be(mode))
                got = {s: _mag(v) for s, v in rates.items()}
            tol = 1e-10 * (1 + ex)
    except Exception as e:
        return False, "raised %s: %s" % (type(e).__name__, e)
    r = k * _cprod(c["rxn"], conc)
    want = {s: -nu * r for s, nu in reac.items()}
    want["P"] = r
    msgs = []
    if sorted(got) != sorted(want):
        msgs.append("rate() has keys %s, expected %s" % (sorted(got), sorted(want)))
    else:
        for s in sorted(want):
            if not _close(got[s], want[s], tol):
                msgs.append("d[%s]/dt = %r, expected net stoichiometry * k(T) * prod c^nu = %r (k(T) = %r)" % (s, got[s], want[s], k))
    return not msgs, "; ".join(msgs)


# ================================================================================================ expression trees
LEAF_SYMS = ["x", "y"]


def _gen_leaf(rng):
    kind = rng.choice(["const", "sym", "arrh", "arrh_uk", "tpoly", "rtpoly", "stpoly", "gibbs", "exp", "symobj"])
    if kind == "const":
        return ("const", round(rng.uniform(0.3, 4), 3))
    if kind in ("sym", "symobj"):
        return (kind, rng.choice(LEAF_SYMS))
    if kind in ("arrh", "arrh_uk"):
        return (kind, round(rng.uniform(0.5, 3), 3), round(rng.uniform(0, 300), 2))
    if kind == "tpoly":
        return ("tpoly", [round(rng.uniform(0.5, 2), 3), round(rng.uniform(0, 1e-3), 7)] + ([round(rng.uniform(0, 2e-7), 10)] if rng.random() < 0.5 else []))
    if kind == "rtpoly":
        return ("rtpoly", [round(rng.uniform(0.5, 2), 3), round(rng.uniform(0, 400), 2)])
    if kind == "stpoly":
        return ("stpoly", round(rng.uniform(100, 190), 1), [round(rng.uniform(0.5, 2), 3), round(rng.uniform(0, 1e-3), 7)])
    if kind == "gibbs":
        return ("gibbs", round(rng.uniform(-200, 200), 2), round(rng.uniform(-0.5, 0.5), 3))
    return ("exp", [round(rng.uniform(-0.5, 0.5), 3), round(rng.uniform(0, 4e-4), 7)])


_POS_NUMS = [1, 2, 0.5, 3, 1.5, 1.0, 2.25]
_ANY_NUMS = _POS_NUMS + [0, 0.0, -1, -2.5]


def gen_tree(rng, depth, positive=False, allow_pow=True):
    """positive=True: value guaranteed > 0 (no subtraction / negation / non-positive numbers)"""
    if depth <= 0 or rng.random() < 0.15:
        return _gen_leaf(rng)
    ops = ["add", "mul", "div"] + (["pow"] if allow_pow else []) + ([] if positive else ["sub", "sub", "neg", "neg2"])
    op = rng.choice(ops)
    if op == "neg":
        return ("neg", gen_tree(rng, depth - 1, False, allow_pow))
    if op == "neg2":
        return ("neg", ("neg", gen_tree(rng, depth - 1, False, allow_pow)))
    nums = _POS_NUMS if (positive or op in ("div", "pow")) else _ANY_NUMS
    numside = rng.choice([None, None, "l", "r"])
    if op == "pow":
        base = ("num", rng.choice([2, 10, 0.5, 1.5, 3])) if numside == "l" else gen_tree(rng, depth - 1, True, False)
        expo = ("num", rng.choice([2, 0.5, -1, 3, 1, -0.5, 1.5])) if numside == "r" else gen_tree(rng, min(depth - 1, 1), positive, False)
        return ("pow", base, expo)
    lpos = positive
    rpos = positive or op == "div"
    left = ("num", rng.choice(nums)) if numside == "l" else gen_tree(rng, depth - 1, lpos, allow_pow)
    right = ("num", rng.choice(_POS_NUMS if rpos else nums)) if numside == "r" else gen_tree(rng, depth - 1, rpos, allow_pow)
    if op == "sub" and numside == "r" and rng.random() < 0.3:
        right = ("num", 0)
    return (op, left, right)


def tree_eval(t, env, eps=None):
    """direct evaluation; env: temperature T, symbols x, y, overrides {'A_uk<n>': value}.  eps: optional function
    perturbing leaf values (conditioning estimate)."""
    k = t[0]
    T = env["T"]
    lv = lambda v: v if eps is None else v * (1 + eps())
    if k in ("num",):
        return t[1]
    if k == "const":
        return lv(t[1])
    if k in ("sym", "symobj"):
        return lv(env[t[1]])
    if k == "arrh":
        return lv(t[1] * math.exp(-t[2] / T))
    if k == "arrh_uk":
        A = env.get("override_A", t[1])
        return lv(A * math.exp(-t[2] / T))
    if k == "tpoly":
        return lv(sum(c * T ** i for i, c in enumerate(t[1])))
    if k == "rtpoly":
        return lv(sum(c * T ** -i for i, c in enumerate(t[1])))
    if k == "stpoly":
        return lv(sum(c * (T - t[1]) ** i for i, c in enumerate(t[2])))
    if k == "gibbs":
        return lv(math.exp(t[2] - t[1] / T))
    if k == "exp":
        return lv(math.exp(sum(c * T ** i for i, c in enumerate(t[1]))))
    if k == "neg":
        return -tree_eval(t[1], env, eps)
    a, b = tree_eval(t[1], env, eps), tree_eval(t[2], env, eps)
    if k == "add":
        return a + b
    if k == "sub":
        return a - b
    if k == "mul":
        return a * b
    if k == "div":
        return a / b
    if k == "pow":
        return a ** b
    raise AssertionError(k)


def tree_has(t, kinds):
    if t[0] in kinds:
        return True
    return any(tree_has(s, kinds) for s in t[1:] if isinstance(s, tuple))


def tree_build(t, units=False):
    """chempy expression of the tree (a plain number for ('num', c)); units=True gives temperature-dependent leaves their
    kelvin-carrying arguments so that every leaf is dimensionless"""
    from chempy.util._expr import Constant, Symbol, Exp
    from chempy.kinetics.rates import Arrhenius
    from chempy.kinetics._rates import TPoly, RTPoly, ShiftedTPoly
    from chempy.thermodynamics.expressions import GibbsEqConst
    K = _U().K if units else 1
    k = t[0]
    if k == "num":
        return t[1]
    if k == "const":
        return Constant(t[1])
    if k == "sym":
        return t[1]                       # a string operand: converted to Symbol by the operators
    if k == "symobj":
        return Symbol(unique_keys=(t[1],))
    if k == "arrh":
        return Arrhenius([t[1], t[2] * K])
    if k == "arrh_uk":
        return Arrhenius([t[1], t[2] * K], unique_keys=("override_A",))
    if k == "tpoly":
        return TPoly([c / K ** i if i else c for i, c in enumerate(t[1])])
    if k == "rtpoly":
        return RTPoly([c * K ** i if i else c for i, c in enumerate(t[1])])
    if k == "stpoly":
        return ShiftedTPoly([t[1] * K] + [c / K ** i if i else c for i, c in enumerate(t[2])])
    if k == "gibbs":
        return GibbsEqConst([t[1] * K, t[2]])
    if k == "exp":
        return Exp(TPoly([c / K ** i if i else c for i, c in enumerate(t[1])]))
    if k == "neg":
        return -_as_expr(tree_build(t[1], units))
    a, b = tree_build(t[1], units), tree_build(t[2], units)
    if isinstance(a, (str, int, float)) and isinstance(b, (str, int, float)):
        a = _as_expr(a)
    if k == "add":
        return a + b
    if k == "sub":
        return a - b
    if k == "mul":
        return a * b
    if k == "div":
        return a / b
    return a ** b


def _as_expr(x):
    from chempy.util._expr import Constant, Symbol
    if isinstance(x, str):
        return Symbol(unique_keys=(x,))
    if isinstance(x, (int, float)):
        return Constant(x)
    return x


def _to_jsonable(t):
    return [_to_jsonable(s) if isinstance(s, tuple) else s for s in t]


def _from_jsonable(t):
    if isinstance(t, list) and t and isinstance(t[0], str) and t[0] in ("num", "const", "sym", "symobj", "arrh", "arrh_uk", "tpoly", "rtpoly",
                                                                          "stpoly", "gibbs", "exp", "neg", "add", "sub", "mul", "div", "pow", "uconst"):
        return tuple(_from_jsonable(s) if (isinstance(s, list) and s and isinstance(s[0], str)) else s for s in t)
    return t


def _well_conditioned(t, env, rng):
    try:
        v = tree_eval(t, env)
        if isinstance(v, complex) or not math.isfinite(v) or abs(v) > 1e60 or (v != 0 and abs(v) < 1e-60):
            return False
        for _ in range(3):
            vp = tree_eval(t, env, lambda: rng.choice([-1, 1]) * 1e-13)
            if abs(vp - v) > 1e-10 * abs(v):
                return False
        return True
    except (ZeroDivisionError, OverflowError, ValueError):
        return False


def gen_treecase(seed, i):
    rng = _par.sub_rng(seed, "C16", "tree", i)
    while True:
        env = {"T": round(rng.uniform(200, 2000), 3), "x": round(rng.uniform(0.3, 4), 4), "y": round(rng.uniform(0.3, 4), 4)}
        if rng.random() < 0.5:
            env["override_A"] = round(rng.uniform(0.5, 3), 3)
        mode = rng.choice(["math", "numpy", "sympy", "units"])
        depth = rng.randint(1, 5)
        if mode == "units":
            t = ("div", ("add", ("mul", ("uconst", 0), gen_tree(rng, depth - 1)), ("mul", ("uconst", 1), gen_tree(rng, depth - 1))),
                 ("mul", ("uconst", 2), gen_tree(rng, max(depth - 2, 0), True)))
            uc = [round(rng.uniform(0.5, 5), 3) for _ in range(3)]
            plain = ("div", ("add", ("mul", ("const", uc[0]), t[1][1][2]), ("mul", ("const", uc[1] / 60.0), t[1][2][2])), ("mul", ("const", uc[2]), t[2][2]))
            if not (tree_has(plain, ("arrh", "arrh_uk", "tpoly", "rtpoly", "stpoly", "gibbs", "exp"))):
                continue
            if _well_conditioned(plain, env, rng):
                return {"mode": mode, "env": env, "tree": _to_jsonable(t), "uconst": uc, "Tunit": 0}
        else:
            t = gen_tree(rng, depth)
            if t[0] in ("num", "sym"):
                continue
            if _well_conditioned(t, env, rng):
                return {"mode": mode, "env": env, "tree": _to_jsonable(t)}


def _build_units_tree(t, uc):
    """('uconst', i) -> Constant with a unit: 0: 1/s, 1: 1/minute, 2: molar"""
    from chempy.util._expr import Constant
    u = _U()
    if t[0] == "uconst":
        return Constant([uc[0] / u.s, uc[1] / u.minute, uc[2] * u.molar][t[1]])
    if t[0] in ("add", "mul", "div") and any(isinstance(s, tuple) and tree_has(s, ("uconst",)) for s in t[1:]):
        a, b = _build_units_tree(t[1], uc), _build_units_tree(t[2], uc)
        return {"add": lambda: a + b, "mul": lambda: a * b, "div": lambda: a / b}[t[0]]()
    return _as_expr(tree_build(t, units=True))


def check_tree(c):
    import sympy
    t, env, mode = _from_jsonable(c["tree"]), c["env"], c["mode"]
    try:
        if mode == "units":
            u = _U()
            uc = c["uconst"]
            plain = ("div", ("add", ("mul", ("const", uc[0]), t[1][1][2]), ("mul", ("const", uc[1] / 60.0), t[1][2][2])), ("mul", ("const", uc[2]), t[2][2]))
            want = tree_eval(plain, env)
            expr = _build_units_tree(t, uc)
            variables = {"temperature": _q(env["T"], "T", c["Tunit"]), "x": env["x"], "y": env["y"]}
            if "override_A" in env:
                variables["override_A"] = env["override_A"]
            got = _mag(expr(variables, backend=_be("Backend")), 1 / u.s / u.molar)
            tol = 2e-9
        else:
            want = tree_eval(t, env)
            expr = _as_expr(tree_build(t))
            if mode == "sympy":
                syms = {"temperature": sympy.Symbol("T", positive=True), "x": sympy.Symbol("x", positive=True), "y": sympy.Symbol("y", positive=True)}
                variables = dict(syms)
                subs = {syms["temperature"]: env["T"], syms["x"]: env["x"], syms["y"]: env["y"]}
                if "override_A" in env:
                    variables["override_A"] = sympy.Symbol("A_o", positive=True)
                    subs[variables["override_A"]] = env["override_A"]
                res = sympy.sympify(expr(variables, backend=sympy))
                got = complex(res.subs(subs).evalf(30))
                if abs(got.imag) > 1e-12 * abs(got):
                    return False, "symbolic evaluation gives a non-real value %r, direct evaluation %r" % (got, want)
                got = got.real
            else:
                variables = {"temperature": env["T"], "x": env["x"], "y": env["y"]}
                if "override_A" in env:
                    variables["override_A"] = env["override_A"]
                got = _mag(expr(variables, backend=_be(mode)))
            tol = 1e-9
    except Exception as e:
        return False, "raised %s: %s" % (type(e).__name__, e)
    if not _close(got, want, tol):
        return False, "expression evaluates to %r, direct evaluation of the tree gives %r" % (got, want)
    return True, ""


# ================================================================================================ expression classes
CLASSES = ["MassAction", "Arrhenius", "Eyring", "EyringHS", "Radiolytic", "Radiolytic2", "TPoly", "RTPoly", "Log10TPoly", "ShiftedTPoly",
           "ShiftedLog10TPoly", "ShiftedRTPoly", "create_Poly", "TPiecewise", "create_Piecewise", "RampedTemp", "SinTemp", "GibbsEqConst",
           "MassActionEq", "Log10", "Exp", "Defaults"]


def gen_cls(seed, i, units_default=False):
    rng = _par.sub_rng(seed, "C16", "cls-d" if units_default else "cls", i)
    cls = CLASSES[i % len(CLASSES)]
    mode = "units_math" if units_default else rng.choice(["math", "numpy", "units", "sympy"])
    c = {"cls": cls, "mode": mode, "T": rng.uniform(200, 2000), "rxn": rng.randrange(len(REACS)),
         "conc": {k: 10 ** rng.uniform(-3, 1) for k in "ABCP"}, "uc": [rng.randrange(6) for _ in range(8)],
         "variant": rng.choice(["plain", "plain", "override", "fk", "strarg", "nested"]), "which": rng.randrange(4),
         "r": [rng.uniform(0, 1) for _ in range(10)], "time": rng.uniform(0, 500)}
    return c


def _poly_val(coeffs, x, reciprocal=False):
    return sum(co * (x ** (-i) if reciprocal else x ** i) for i, co in enumerate(coeffs))


def check_cls(c):
    """Builds the instance, the variables and the expected number for one class/mode/variant and compares."""
    import sympy
    from chempy import Reaction, Equilibrium
    from chempy.util._expr import Expr, Constant, Log10, Exp, create_Poly, create_Piecewise
    from chempy.kinetics import rates as RT
    from chempy.kinetics import _rates as _RT
    from chempy.thermodynamics.expressions import MassActionEq, GibbsEqConst
    from chempy.units import default_constants as dc
    u = _U()
    cls, mode, T, conc, uc, variant, r = c["cls"], c["mode"], c["T"], c["conc"], c["uc"], c["variant"], c["r"]
    units = mode in ("units", "units_math")
    sym = mode == "sympy"
    backend = _be({"units": "Backend", "sympy": "sympy", "units_math": None}.get(mode, mode))
    bk = {} if mode == "units_math" else {"backend": backend}      # units_math: the default backend of Expr.__call__ (math)
    rxn, order = _rxn(c["rxn"])
    subs = {}

    def V(name, val, kind=None, choice=0):
        """value of a *variable*: float, quantity or sympy symbol (recorded for substitution)"""
        if sym:
            s = sympy.Symbol("v_" + name.replace("-", "_"), positive=True)
            subs[s] = val
            return s
        if units and kind is not None:
            return _q(val, kind, choice)
        return val

    def Aq(val, kind=None, choice=0, unit=None):
        """value of an *argument*: float or quantity"""
        if units and unit is not None:
            return val * unit
        if units and kind is not None:
            return _q(val, kind, choice)
        return val

    variables = {}
    kwargs = {}
    res_unit = None
    exps = 0.0
    try:
        concv = {k: V(k, conc[k], "conc", uc[0] + i) for i, k in enumerate("ABCP")}
        cp = _cprod(c["rxn"], conc)
        if cls == "MassAction":
            k = 10 ** (r[0] * 10 - 3)
            kq = Aq(k, unit=1 / u.s / u.molar ** (order - 1))
            ko = 10 ** (r[1] * 10 - 3)
            if variant == "override":
                expr = RT.MassAction([kq], ["k_named"])
                variables["k_named"] = V("k_named", ko) if not units else ko / u.s / u.molar ** (order - 1)
                k = ko
            elif variant == "fk":
                expr = RT.MassAction.fk("k_named")
                variables["k_named"] = V("k_named", ko) if not units else ko / u.s / u.molar ** (order - 1)
                k = ko
            elif variant == "nested":
                expr = RT.MassAction(Constant(kq))
            else:
                expr = RT.MassAction([kq], ["k_named"] if variant == "strarg" else None)    # key declared but not supplied
            variables.update(concv)
            kwargs["reaction"] = rxn
            want = k * cp
            res_unit = u.molar / u.s
        elif cls == "Arrhenius":
            A, E = 10 ** (r[0] * 15 - 3), r[1] * 2e4
            Ao, Eo = 10 ** (r[2] * 15 - 3), r[3] * 2e4
            Aa, Ea = Aq(A, "per_time", uc[1]), Aq(E, "T", uc[2])
            variables["temperature"] = V("T", T, "T", uc[3])
            if variant == "override":
                expr = RT.Arrhenius([Aa, Ea], ["A_named", "E_named"])
                if c["which"] % 2 == 0:
                    variables["A_named"] = V("A_named", Ao) if not units else Aq(Ao, "per_time", uc[4])
                    A = Ao
                else:
                    variables["E_named"] = V("E_named", Eo) if not units else Aq(Eo, "T", uc[4])
                    E = Eo
            elif variant == "fk":
                expr = RT.Arrhenius.fk("A_named", "E_named")
                variables["A_named"] = V("A_named", Ao) if not units else Aq(Ao, "per_time", uc[4])
                variables["E_named"] = V("E_named", Eo) if not units else Aq(Eo, "T", uc[5])
                A, E = Ao, Eo
            elif variant == "strarg":
                expr = RT.Arrhenius(["my_A", Ea])
                variables["my_A"] = V("my_A", Ao) if not units else Aq(Ao, "per_time", uc[4])
                A = Ao
            elif variant == "nested":
                co = [r[4] + 0.5, r[5] * 1e-3]
                expr = RT.Arrhenius([_RT.TPoly([Aq(co[0], unit=1 / u.s), Aq(co[1], unit=1 / u.s / u.K)]), Ea])
                A = _poly_val(co, T)
            else:
                expr = RT.Arrhenius({"A": Aa, "Ea_over_R": Ea}) if c["which"] == 0 else RT.Arrhenius([Aa, Ea])
            want = A * math.exp(-E / T)
            exps = E / T
            res_unit = 1 / u.s
        elif cls == "Eyring":
            c0, c1, s0 = 10 ** (r[0] * 6 + 6), r[1] * 2e4, 10 ** (r[2] * 2 - 1)
            c0a = Aq(c0, unit=1 / u.s / u.K / u.molar ** (order - 1))
            c1a = Aq(c1, "T", uc[2])
            variables["temperature"] = V("T", T, "T", uc[3])
            variables.update(concv)
            if variant in ("plain", "nested") and not sym and c["which"] % 2 == 0:
                expr = RT.MassAction(RT.Eyring([c0a, c1a]))          # default standard state 1 molar
                s0 = 1.0
                if units:
                    expr = RT.MassAction(RT.Eyring([Aq(c0, unit=1 / u.s / u.K), c1a]))
            elif variant == "override":
                expr = RT.MassAction(RT.Eyring([c0a, c1a, Aq(s0, unit=u.molar) if not units else 1 * u.dimensionless], ["S_named", "H_named"]))
                if units:
                    s0 = 1.0
                c1 = r[3] * 2e4
                variables["H_named"] = V("H_named", c1) if not units else Aq(c1, "T", uc[4])
            else:
                expr = RT.MassAction(RT.Eyring([c0a, c1a, s0 if not units else 1 * u.dimensionless]))
                if units:
                    s0 = 1.0
            kwargs["reaction"] = rxn
            want = c0 * T * math.exp(-c1 / T) * s0 ** (1 - order) * cp
            exps = c1 / T
            res_unit = u.molar / u.s
        elif cls == "EyringHS":
            dH, dS, s0 = r[0] * 2e5, r[1] * 300 - 150, 10 ** (r[2] * 2 - 1)
            variables["temperature"] = V("T", T, "T", uc[3])
            variables.update(concv)
            if units:
                expr = RT.MassAction(RT.EyringHS([_q(dH, "energy", uc[1]), _q(dS, "entropy", uc[2])]))
                s0 = 1.0
                variables.update(molar_gas_constant=dc.molar_gas_constant, Boltzmann_constant=dc.Boltzmann_constant, Planck_constant=dc.Planck_constant)
                Rv, kb, h = R_NUM, KB_06, H_06
            else:
                Rv, kb, h = 8.3 + r[3] * 0.05, 1.38e-23 * (1 + r[4] * 0.01), 6.626e-34 * (1 + r[5] * 0.01)
                if variant == "override":
                    expr = RT.MassAction(RT.EyringHS([dH, dS, s0], ["dH_named", "dS_named", "c0_named"]))
                    dS = r[6] * 300 - 150
                    variables["dS_named"] = V("dS_named", dS + 200) - 200
                else:
                    expr = RT.MassAction(RT.EyringHS([dH, dS, s0]))
                variables.update(molar_gas_constant=V("R", Rv), Boltzmann_constant=V("kB", kb), Planck_constant=V("h", h))
            kwargs["reaction"] = rxn
            want = kb / h * T * math.exp(-(dH - T * dS) / (Rv * T)) * s0 ** (1 - order) * cp
            exps = abs(dH / (Rv * T)) + abs(dS / Rv)
            res_unit = u.molar / u.s
        elif cls in ("Radiolytic", "Radiolytic2"):
            names = [""] if cls == "Radiolytic" else ["alpha", "beta"]
            G = [10 ** (r[i] * 3 - 9) for i in range(len(names))]
            D = [10 ** (r[3 + i] * 4 - 2) for i in range(len(names))]
            rho = 0.5 + r[6]
            Go = list(G)
            K = RT.Radiolytic if cls == "Radiolytic" else RT.mk_Radiolytic(*names)
            Ga = [Aq(g, "yield", uc[1 + i]) for i, g in enumerate(G)]
            if variant == "override":
                keys = ["g_named_%d" % i for i in range(len(names))]
                expr = K(Ga, keys)
                j = c["which"] % len(names)
                Go[j] = 10 ** (r[7] * 3 - 9)
                variables[keys[j]] = V(keys[j], Go[j]) if not units else Aq(Go[j], "yield", uc[5])
            elif variant == "nested" and cls == "Radiolytic":
                co = [G[0], G[0] * 1e-3]
                expr = K(_RT.ShiftedTPoly([Aq(273.15, unit=u.K), Aq(co[0], unit=u.mol / u.J), Aq(co[1], unit=u.mol / u.J / u.K)]))
                variables["temperature"] = V("T", T, "T", uc[3])
                Go = [co[0] + co[1] * (T - 273.15)]
            else:
                expr = K(Ga)
            variables["density"] = V("rho", rho, "density", uc[6])
            for nm, d, i in zip(names, D, range(2)):
                variables["doserate" + ("_" + nm if nm else "")] = V("D" + nm, d, "doserate", uc[3 + i])
            want = rho * sum(d * g for d, g in zip(D, Go))
            res_unit = u.molar / u.s
        elif cls in ("TPoly", "RTPoly", "Log10TPoly", "ShiftedTPoly", "ShiftedLog10TPoly", "ShiftedRTPoly", "create_Poly"):
            n = 1 + int(r[0] * 4)
            co = [(r[1 + i] - 0.3) * 10 ** (-i * (0 if "Log10" in cls else 2.5)) for i in range(n)]
            recip = cls in ("RTPoly", "ShiftedRTPoly") or (cls == "create_Poly" and c["which"] % 2 == 1)
            shifted = cls.startswith("Shifted") or (cls == "create_Poly" and c["which"] >= 2)
            if recip:
                co = [co_i * 10 ** (i * 5) for i, co_i in enumerate(co)]
            if cls == "create_Poly":
                K = create_Poly("x", reciprocal=recip, shift=True if shifted else None)
                pname, xv = "x", T
            else:
                K = getattr(_RT, cls)
                pname = "log10_temperature" if "Log10" in cls else "temperature"
                xv = math.log10(T) if "Log10" in cls else T
            shift = (1.0 + r[6]) if "Log10" in cls else 50 + r[6] * 100
            logmode = "Log10" in cls
            ku = u.K
            if logmode or cls == "create_Poly" and False:
                ku = None
            if units and ku is not None:
                coa = [co_i * (1 / u.s) * (ku ** i if recip else ku ** -i) for i, co_i in enumerate(co)]
                sha = _q(shift, "T", uc[2])
                variables[pname] = V(pname, xv, "T", uc[3])
                res_unit = 1 / u.s
            else:
                coa, sha = list(co), shift
                variables[pname] = V(pname, xv)
            keyname = {"ShiftedTPoly": "Tref", "ShiftedRTPoly": "Tref", "ShiftedLog10TPoly": "log10_Tref", "create_Poly": "shift"}.get(cls)
            if shifted:
                if variant == "override":
                    expr = K([sha] + coa, [keyname + "_named"])
                    shift = (1.0 + r[7]) if logmode else 50 + r[7] * 100
                    variables[keyname + "_named"] = (V(keyname, shift) if not (units and ku is not None) else _q(shift, "T", uc[4]))
                else:
                    expr = K([sha] + coa)
                want = _poly_val(co, xv - shift, recip)
            else:
                if variant == "override" and n >= 1:
                    expr = K(coa, ["c0_named"])
                    co = [r[7] + 0.1] + co[1:]
                    variables["c0_named"] = V("c0_named", co[0]) if not (units and ku is not None) else co[0] / u.s
                else:
                    expr = K(coa)
                want = _poly_val(co, xv, recip)
            if cls == "ShiftedLog10TPoly" and c["which"] % 2 == 0 and not sym and not units:
                # parameter supplied as an expression of the temperature (as in the repository's tests)
                variables = {"temperature": T, "log10_temperature": Log10("temperature")}
                if variant == "override":
                    variables[keyname + "_named"] = shift
        elif cls in ("TPiecewise", "create_Piecewise"):
            K = _RT.TPiecewise if cls == "TPiecewise" else create_Piecewise("x")
            pname = "temperature" if cls == "TPiecewise" else "x"
            bounds = [100.0, 100 + 600 * (0.2 + 0.6 * r[0]), 2100.0]
            if c["which"] == 3:
                bounds = [100.0, 500.0 + 100 * r[0], 1000.0 + 200 * r[1], 2100.0]
            pieces = []
            for j in range(len(bounds) - 1):
                pieces.append([r[2 + j] + 0.2, (r[5 + j] - 0.5) * 1e-3])
            outside = False
            if not units and r[9] < 0.3:          # exactly on a bound: the first interval containing it (closed intervals)
                T = bounds[int(r[8] * len(bounds)) % len(bounds)]
            elif mode in ("math", "numpy") and r[9] < 0.4:
                T = 50.0 if r[8] < 0.5 else 3000.0
                outside = True
            sel = ([j for j in range(len(pieces)) if bounds[j] <= T <= bounds[j + 1]] or [None])[0]
            ba = [Aq(b, "T", uc[1] + j) for j, b in enumerate(bounds)]
            pa = []
            for j, pc in enumerate(pieces):
                if variant == "nested" or j % 2 == 0:
                    PK = create_Poly(pname)
                    pa.append(PK([Aq(pc[0], unit=1 / u.s), Aq(pc[1], unit=1 / u.s / u.K)]))
                else:
                    pa.append(Aq(pc[0], unit=1 / u.s))      # a plain number as piece
                    pieces[j] = [pc[0], 0.0]
            args = [ba[0]]
            for j, pj in enumerate(pa):
                args += [pj, ba[j + 1]]
            expr = K(args)
            variables[pname] = V(pname, T, "T", uc[3])
            if outside:
                try:
                    val = expr(variables, **bk)
                except ValueError:
                    return True, ""
                return False, "%s at %r outside all intervals %r returned %r instead of raising ValueError" % (cls, T, bounds, val)
            want = _poly_val(pieces[sel], T)
            res_unit = 1 / u.s
        elif cls == "RampedTemp":
            T0, dT, t = 250 + r[0] * 100, (r[1] - 0.5) * 2, c["time"]
            if variant == "override":
                expr = RT.RampedTemp([Aq(T0, "T", uc[1]), Aq(dT, "T_per_time", uc[2])], ["T0_named", "dTdt_named"])
                dT = (r[2] - 0.5) * 2
                variables["dTdt_named"] = (V("dTdt_named", dT + 5) - 5) if not units else Aq(dT, "T_per_time", uc[4])
            else:
                expr = RT.RampedTemp([Aq(T0, "T", uc[1]), Aq(dT, "T_per_time", uc[2])])
            variables["time"] = V("t", t, "time", uc[3])
            want = T0 + dT * t
            res_unit = u.K
        elif cls == "SinTemp":
            Tb, Ta, w, ph, t = 250 + r[0] * 100, r[1] * 40, 10 ** (r[2] * 3 - 3), r[3] * 6, c["time"]
            expr = RT.SinTemp([Aq(Tb, "T", uc[1]), Aq(Ta, "T", uc[2]), Aq(w, "per_time", uc[4]), ph])
            variables["time"] = V("t", t, "time", uc[3])
            want = Tb + Ta * math.sin(w * t + ph)
            res_unit = u.K
            exps = w * t
        elif cls == "GibbsEqConst":
            dH, dS = (r[0] - 0.5) * 2e4, (r[1] - 0.5) * 20
            expr = GibbsEqConst([Aq(dH, "T", uc[1]), dS], ["dH_named"] if variant == "override" else None)
            if variant == "override":
                dH = (r[2] - 0.5) * 2e4
                variables["dH_named"] = (V("dH_named", dH + 2e4) - 2e4) if not units else Aq(dH, "T", uc[4])
            variables["temperature"] = V("T", T, "T", uc[3])
            want = math.exp(dS - dH / T)
            exps = abs(dS) + abs(dH / T)
        elif cls == "MassActionEq":
            K_ = 10 ** (r[0] * 10 - 5)
            eq = Equilibrium({"A": 1, "B": 2}, {"C": 1, "P": 2})
            expr = MassActionEq([K_], ["K_named"] if variant == "override" else None)
            if variant == "override":
                K_ = 10 ** (r[1] * 10 - 5)
                variables["K_named"] = V("K_named", K_)
            if c["which"] % 2 == 0 and not units:
                variables.update(concv)
                got_raw = expr.equilibrium_equation(variables, backend=backend, equilibrium=eq)
                want = K_ - conc["C"] * conc["P"] ** 2 / (conc["A"] * conc["B"] ** 2)
                expr = None
            else:
                want = K_
        elif cls in ("Log10", "Exp"):
            co = [0.5 + r[0], r[1] * 1e-3]
            inner = _RT.TPoly([co[0], Aq(co[1], unit=1 / u.K)])
            variables["temperature"] = V("T", T, "T", uc[3])
            if cls == "Log10":
                expr = Log10("temperature" / Constant(1 * u.K if units else 1)) if variant == "strarg" else Log10(inner)
                want = math.log10(T) if variant == "strarg" else math.log10(_poly_val(co, T))
            else:
                expr = Exp(inner)
                want = math.exp(_poly_val(co, T))
                exps = _poly_val(co, T)
        elif cls == "Defaults":
            # a user-defined Expr with two trailing defaults: f = a*b + c, defaults b = 17, c = 23 (aligned from the end)
            class LinDef(Expr):
                argument_names = ("a", "b", "c")
                argument_defaults = (17.0, 23.0)

                def __call__(self, variables, backend=math, **kw):
                    a_, b_, c_ = self.all_args(variables, backend=backend, **kw)
                    return a_ * b_ + c_

            a_, b_, c_ = 1 + r[0], 2 + r[1], 3 + r[2]
            ao = 5 + r[3]
            wh = c["which"]
            if variant == "fk":
                expr, a_, b_, c_ = LinDef.fk("a_named"), ao, 17.0, 23.0
                variables["a_named"] = V("a_named", ao)
            elif variant == "override":
                expr = LinDef([a_, b_][: 1 + wh % 2], ["a_named", "b_named"][: 1 + wh // 2])
                b_ = b_ if wh % 2 else 17.0
                c_ = 23.0
                if wh // 2:
                    b_ = 7 + r[4]
                    variables["b_named"] = V("b_named", b_)
                else:
                    a_ = ao
                    variables["a_named"] = V("a_named", ao)
            else:
                given = [a_, b_, c_][: 1 + wh % 3]
                expr = LinDef(given)
                b_, c_ = (given + [17.0, 23.0][len(given) - 1:])[1:3] if len(given) < 3 else (b_, c_)
            want = a_ * b_ + c_
        else:
            raise AssertionError(cls)
        if expr is not None:
            got_raw = expr(variables, **dict(bk, **kwargs))
        if sym:
            if hasattr(got_raw, "dimensionality"):
                got_raw = got_raw.magnitude.item() if hasattr(got_raw.magnitude, "item") else got_raw.magnitude
            got = float(sympy.sympify(got_raw).subs(subs).evalf(30))
        else:
            got = _mag(got_raw, res_unit if units else None)
    except Exception as e:
        return False, "raised %s: %s" % (type(e).__name__, e)
    tol = (2e-9 if units else 1e-10) * (1 + abs(exps))
    if cls == "MassActionEq":
        tol *= 1 + abs(conc["C"] * conc["P"] ** 2 / (conc["A"] * conc["B"] ** 2)) / max(abs(want), 1e-300)
    if cls in ("RampedTemp", "EyringHS", "GibbsEqConst") and sym:
        tol *= 1e3        # shifted symbols (v - const) lose a few digits
    if cls.endswith("Poly") or cls == "create_Poly":
        tol = 1e-9 + tol * 10   # alternating coefficients: modest cancellation
        if not _close(got, want, tol) and abs(got - want) <= 1e-9 * sum(abs(x) for x in ([want] + [1.0])):
            return True, ""
    if not _close(got, want, tol):
        return False, "%s (%s, %s) evaluates to %r, defining formula gives %r" % (cls, mode, variant, got, want)
    return True, ""


# ================================================================================================ log10 symbolic
def gen_log10(seed, i):
    rng = _par.sub_rng(seed, "C16", "log10", i)
    return {"T": rng.uniform(200, 2000), "co": [0.5 + rng.random(), rng.random() * 1e-3], "form": rng.choice(["Log10(str)", "Log10(poly)", "ShiftedLog10TPoly"])}


def check_log10(c):
    import sympy
    from chempy.util._expr import Log10
    from chempy.kinetics._rates import TPoly, ShiftedLog10TPoly
    T, co = c["T"], c["co"]
    Ts = sympy.Symbol("T", positive=True)
    try:
        if c["form"] == "Log10(str)":
            res, want = Log10("temperature")({"temperature": Ts}, backend=sympy), math.log10(T)
        elif c["form"] == "Log10(poly)":
            res, want = Log10(TPoly(co))({"temperature": Ts}, backend=sympy), math.log10(co[0] + co[1] * T)
        else:
            res = ShiftedLog10TPoly([2.0] + co)({"temperature": Ts, "log10_temperature": Log10("temperature")}, backend=sympy)
            want = co[0] + co[1] * (math.log10(T) - 2.0)
        got = float(sympy.sympify(res).subs(Ts, T).evalf(30))
    except Exception as e:
        return False, "%s with backend=sympy raised %s: %s" % (c["form"], type(e).__name__, e)
    if not _close(got, want, 1e-10):
        return False, "%s symbolic then substituted gives %r, expected %r" % (c["form"], got, want)
    return True, ""


# ================================================================================================ MassAction algebra
MA_FORMS = ["ma*e", "e*ma", "ma/e", "e/ma", "ma*num", "num*ma", "ma/num", "num/ma", "ma/1", "(ma*e)/num", "num*(e/ma)"]


def gen_ma(seed, i):
    rng = _par.sub_rng(seed, "C16", "ma", i)
    return {"form": MA_FORMS[i % len(MA_FORMS)], "k": 10 ** rng.uniform(-3, 6), "num": rng.choice([2, 0.5, 3.0, 7, 1.5, 1]),
            "e": rng.choice(["const", "tpoly", "arrh", "gibbs"]), "ep": [rng.uniform(0.5, 3), rng.uniform(0, 1e-3)], "T": rng.uniform(200, 2000),
            "rxn": rng.randrange(len(REACS)), "conc": {k: 10 ** rng.uniform(-3, 1) for k in "ABCP"},
            "mode": rng.choice(["math", "numpy", "sympy", "units"]), "inner": rng.choice(["number", "arrhenius"]), "cunit": rng.randrange(2)}


def check_ma(c):
    import sympy
    from chempy.kinetics.rates import MassAction, Arrhenius
    from chempy.kinetics._rates import TPoly
    from chempy.thermodynamics.expressions import GibbsEqConst
    from chempy.util._expr import Constant
    u = _U()
    form, k, num, T, conc, mode = c["form"], c["k"], c["num"], c["T"], c["conc"], c["mode"]
    units = mode == "units"
    rxn, order = _rxn(c["rxn"])
    K = u.K if units else 1
    kunit = (1 / u.s / u.molar ** (order - 1)) if units else 1
    try:
        if c["inner"] == "number":
            ma, kv = MassAction([k * kunit]), k
        else:
            ma, kv = MassAction(Arrhenius([k * kunit, 1000.0 * K])), k * math.exp(-1000.0 / T)
        a, b = c["ep"]
        if c["e"] == "const":
            e, ev = Constant(a), a
        elif c["e"] == "tpoly":
            e, ev = TPoly([a, b / K]), a + b * T
        elif c["e"] == "arrh":
            e, ev = Arrhenius([a, (b * 1e5) * K]), a * math.exp(-b * 1e5 / T)
        else:
            e, ev = GibbsEqConst([(b * 1e5) * K, a - 1.5]), math.exp(a - 1.5 - b * 1e5 / T)
        res, coeff = {
            "ma*e": lambda: (ma * e, kv * ev), "e*ma": lambda: (e * ma, ev * kv), "ma/e": lambda: (ma / e, kv / ev),
            "e/ma": lambda: (e / ma, ev / kv), "ma*num": lambda: (ma * num, kv * num), "num*ma": lambda: (num * ma, num * kv),
            "ma/num": lambda: (ma / num, kv / num), "num/ma": lambda: (num / ma, num / kv), "ma/1": lambda: (ma / 1, kv),
            "(ma*e)/num": lambda: ((ma * e) / num, kv * ev / num), "num*(e/ma)": lambda: (num * (e / ma), num * ev / kv)}[form]()
        if not isinstance(res, MassAction):
            return False, "%s is a %s, not a MassAction" % (form, type(res).__name__)
        inverted = form in ("e/ma", "num/ma", "num*(e/ma)")
        cp = _cprod(c["rxn"], conc)
        if mode == "sympy":
            syms = {s: sympy.Symbol("c_" + s, positive=True) for s in conc}
            Ts = sympy.Symbol("T", positive=True)
            subs = {syms[s]: conc[s] for s in conc}
            subs[Ts] = T
            variables = dict(syms, temperature=Ts)
            got = float(sympy.sympify(res(variables, backend=sympy, reaction=rxn)).subs(subs).evalf(30))
            gotc = float(sympy.sympify(res.rate_coeff(variables, backend=sympy)).subs(subs).evalf(30))
        elif units:
            variables = {s: _q(conc[s], "conc", c["cunit"]) for s in conc}
            variables["temperature"] = T * u.K
            B = _be("Backend")
            cunit = kunit ** (-1 if inverted else 1)
            got = _mag(res(variables, backend=B, reaction=rxn), cunit * u.molar ** order)
            gotc = _mag(res.rate_coeff(variables, backend=B), cunit)
        else:
            variables = dict(conc, temperature=T)
            got = _mag(res(variables, backend=_be(mode), reaction=rxn))
            gotc = _mag(res.rate_coeff(variables, backend=_be(mode)))
    except Exception as e2:
        return False, "raised %s: %s" % (type(e2).__name__, e2)
    tol = (2e-9 if units else 1e-10) * (1 + 1e5 * c["ep"][1] / T + 1000.0 / T)
    if not _close(gotc, coeff, tol):
        return False, "%s: rate coefficient %r, expected %r" % (form, gotc, coeff)
    if not _close(got, coeff * cp, tol):
        return False, "%s: rate %r, expected coefficient * concentration product = %r" % (form, got, coeff * cp)
    return True, ""


# ================================================================================================ driver
_GEN = {"param_sets": gen_param, "param_in_reaction": gen_prx,
        "param_in_reaction_units_default_backend": lambda seed, i: gen_prx(seed, i, True),
        "expr_classes": gen_cls, "expr_classes_units_default_backend": lambda seed, i: gen_cls(seed, i, True), "log10_symbolic": gen_log10, "expr_trees": gen_treecase, "massaction_algebra": gen_ma}
_CHECK = {"param_sets": check_param, "param_in_reaction": check_prx, "param_in_reaction_units_default_backend": check_prx,
          "expr_classes": check_cls, "expr_classes_units_default_backend": check_cls, "log10_symbolic": check_log10, "expr_trees": check_tree, "massaction_algebra": check_ma}
_N = {"param_sets": (3000, 60000), "param_in_reaction": (3000, 60000), "param_in_reaction_units_default_backend": (600, 6000),
      "expr_classes": (4400, 88000), "expr_classes_units_default_backend": (1100, 13200), "log10_symbolic": (90, 600),
      "expr_trees": (4800, 100000), "massaction_algebra": (2200, 44000)}
_RULE = {
    "param_sets": ("ArrheniusParam(A, Ea) with A 1e-3..1e16, Ea -20..300 kJ/mol (also 0); EyringParam(dH 0..300 kJ/mol, dS -200..200 J/K/mol); "
                   "T 200..2000 K; float mode with backend None/math/numpy/sympy (plus T symbolic under sympy, then substituted) and "
                   "WithUnits mode (energies in J, kJ or cal per mol, entropies in J or cal per mol per K) and the plain classes called "
                   "with quantities, units=default_units and no constants object; Arrhenius: "
                   "from_rateconst_at_T(Ea, (T, k)) gives A = k exp(Ea/RT), reproduces k at T and k exp(-Ea/R (1/T2 - 1/T)) at T2; "
                   "tolerance 1e-10 (2e-9 with units) * (1 + |exponents|)", "see rule"),
    "param_in_reaction": ("Reaction of order 1..3 (A; A+B; 2A; 2A+B; A+B+C; 3A -> P) with an ArrheniusParam/EyringParam(+WithUnits) as "
                          "parameter: every entry of .rate(variables) equals net stoichiometry * k(T) * prod c^nu; concentrations 1e-3..10; "
                          "floats with math/numpy, sympy symbols then substituted, quantities (M or mol/m3, energies J/kJ/cal) with the "
                          "unit-aware chempy.units.Backend(); Eyring: standard state 1 M, magnitudes compared", "see rule"),
    "param_in_reaction_units_default_backend": ("as param_in_reaction with quantities but with the default backend of Reaction.rate (math)", "see rule"),
    "expr_classes": ("22 expression classes/factories in rotation (a user-defined Expr with two trailing argument defaults, MassAction, Arrhenius, Eyring, EyringHS, Radiolytic, mk_Radiolytic(alpha,beta), "
                     "TPoly, RTPoly, Log10TPoly, ShiftedTPoly, ShiftedLog10TPoly, ShiftedRTPoly, create_Poly(x, reciprocal, shift), TPiecewise, "
                     "create_Piecewise, RampedTemp, SinTemp, GibbsEqConst, MassActionEq(+equilibrium_equation), Log10, Exp) at random arguments; "
                     "modes math, numpy, quantities in mixed units (K/kK, s/min, M / mol m-3, J/kJ/cal, ...) with Backend(), sympy symbols "
                     "then substituted; variants: plain, one named override through unique_keys (exactly that argument replaced), keys only "
                     "(fk), string argument, nested expression argument, dict arguments, default standard state; piecewise: arguments exactly "
                     "on a bound (closed intervals, first match) and outside all intervals (ValueError with math/numpy)", "see rule"),
    "expr_classes_units_default_backend": ("the classes and variants of expr_classes with quantities in mixed, non-coherent units (kK vs K, min vs s, "
                                           "kJ or cal vs J, mol/m3 vs M) evaluated WITHOUT a backend argument, i.e. with the default backend "
                                           "`math` of Expr.__call__ (math.exp / math.sin of a quantity silently drops unit prefixes unless the code "
                                           "simplifies first)", "see expr_classes"),
    "log10_symbolic": ("Log10('temperature'), Log10(TPoly) and ShiftedLog10TPoly with log10_temperature = Log10('temperature') evaluated with "
                       "backend=sympy, then substituted", "3 forms x T 200..2000"),
    "expr_trees": ("random trees of depth <= 5 over + - * / ** and negation (incl. double negation), operands that are plain ints/floats on "
                   "either side (reflected operators; 0 and 1 to hit the shortcut returns), strings (implicit Symbol), Symbol, Constant, "
                   "Arrhenius (one with a unique-key override), TPoly, RTPoly, ShiftedTPoly, GibbsEqConst, Exp(TPoly); denominators, bases "
                   "positive by construction; evaluated with math, numpy, sympy symbols then substituted, and as "
                   "(Constant(a/s)*t1 + Constant(b/min)*t2) / (Constant(c M)*t3) with kelvin-carrying leaves and T in K under "
                   "Backend() (kK inside sums/powers trips the `quantities` package itself: np.float64 - Quantity[K/kK]); compared with the stand-in's own recursive evaluation to 1e-9 (2e-9 with units); ill-conditioned trees "
                   "are regenerated", "depth <= 5, T 200..2000, symbols 0.3..4"),
    "massaction_algebra": ("MassAction([k]) or MassAction(Arrhenius) combined as ma*e, e*ma, ma/e, e/ma, ma*num, num*ma, ma/num, num/ma, ma/1, "
                           "(ma*e)/num, num*(e/ma) with e in Constant, TPoly, Arrhenius, GibbsEqConst: result is a MassAction, its "
                           "rate_coeff is the combined coefficient and its value in a reaction of order 1..3 is coefficient * prod c^nu; "
                           "math, numpy, sympy, quantities with Backend()", "11 forms x 4 operand kinds x 4 modes"),
}


def _work(item):
    name, case = item
    ok, det = _CHECK[name](case)
    return name, case, ok, det


def run(tier, seed):
    qi = 0 if tier == "quick" else 1
    cols = {"constants": _par.Collector("constants", "the gas constant and kB/h used by the numeric path and by default_constants against "
                                        "CODATA 2018 (8.314462618, 2.083661912e10) to 1e-5 relative; the oracle's own constants likewise",
                                        "6 constants", exhaustive=True)}
    run_constants(cols["constants"])
    items = [(name, _GEN[name](seed, i)) for name in _GEN for i in range(_N[name][qi])]
    for name in _GEN:
        cols[name] = _par.Collector(name, _RULE[name][0], _RULE[name][1])
    for name, case, ok, det in _par.pmap(_work, items):
        cols[name].add(case, ok, det)
    return {"standins": [cols[n].result() for n in ["constants"] + list(_GEN)]}


def replay(case):
    if case["name"] == "constants":
        col = _par.Collector("constants", "", "")
        run_constants(col)
        bad = [v for v in col.violations if v["inputs"] == case["inputs"]]
        return (not bad), (bad[0]["detail"] if bad else "holds")
    ok, det = _CHECK[case["name"]](case["inputs"])
    return ok, det or "holds"
