"""C08  Reported equilibrium compositions are genuine whenever the solver claims success."""
import math

from pyvc.api import harness
from pyvc import spec as SP
from pyvc.sym import Sym

META = {
    "explanation": "what chempy itself contributes to the claim is proved: _result_is_sane is exactly (all x >= 0) and (all x <= elemental bound*(1+rtol)) and warns (in whatever words) exactly when it rejects; root/_solve hand the solver x0 (default: the initial concentrations) and params = initial concentrations followed by the equilibrium constants, and report sanity of the RETURNED x against the SAME initial concentrations; the precipitation switches fire when the ion product of the dissolved state exceeds Ksp and do not when it is below (a relative band of 1e-9 around Ksp left open, Ksp over the decades down to 1e-18, with the constant the equilibrium has at that moment) and switch back iff the solid drops below `small`; for a given presence pattern every formulation solves one equation per equilibrium: [ions] = Ksp for a present solid, [solid] = small for an absent one, whichever way and multiple the salt is written and wherever it stands among the reactions (equations compared as equations, not as literal rows); dissolved() zeroes the solid and moves every other species by -c_solid/nu_solid*net (so element totals are kept for a balanced reaction); each formulation's pre/post processors are inverse on the admissible domain. Soundness and convergence of the delegated root finders are outside any contract: bounded run-time contract (with the recorded findings F-C08/F-C08b); data obligations run the property itself on hand-picked witnesses with a real solubility product (1.8e-10) under the three ways of building the solver, logarithmic formulation.",
    "trusted_base": ["pyneqsys solvers are external: solve(x0, params) is modelled as returning arbitrary (x, {'success': b})", "numpy object arrays (5.2)", "contract of upper_conc_bounds (C15)"],
    "not_decided": ["success and sane => Q = K and conservation (depends on the external least-squares solver; known findings F-C08, F-C08b)", ">= 19/20 success rate, agreement with brentq: bounded only"],
    "assumptions": ["system shapes fixed per harness"],
}
EQ = "chempy.equilibria"


def _eqsys():
    from chempy.chemistry import Equilibrium, Species
    from chempy.equilibria import EqSystem
    from collections import OrderedDict
    subs = OrderedDict((k, Species.from_formula(k)) for k in ["H2O", "H+", "OH-", "NH4+", "NH3"])
    return EqSystem([Equilibrium({"H2O": 1}, {"H+": 1, "OH-": 1}, 1e-14 / 55.5), Equilibrium({"NH4+": 1}, {"NH3": 1, "H+": 1}, 5.6e-10)], subs)


def _arr(xs):
    import numpy as np
    a = np.empty(len(xs), dtype=object)
    for i, x in enumerate(xs):
        a[i] = x
    return a


@harness("C08", "_result_is_sane", functions=[EQ + ":EqSystem._result_is_sane"], kind="shape-bounded", samples=0, max_paths=2000)
def _(v):
    from chempy.equilibria import EqSystem
    es = _eqsys()
    n = es.ns
    x = [v.real("x%d" % i, lo=-1, hi=100) for i in range(n)]
    ub = [v.real("ub%d" % i, lo=0, hi=100) for i in range(n)]
    v.contract(EqSystem.upper_conc_bounds, "upper_conc_bounds", None, lambda v_, self, init_concs, **kw: list(ub))
    r = v.call(es._result_is_sane, [1.0] * n, _arr(x))
    neg = SP.disj([xi < 0 for xi in x])
    much = SP.disj([xi > u * (1 + 1e-9) for xi, u in zip(x, ub)])
    v.prove("sane_iff_nonnegative_and_within_elemental_bounds", SP.iff(r, SP.conj([SP.neg(neg), SP.neg(much)])))
    # the caller is TOLD when a composition is rejected and is not bothered when it is accepted. The wording (and number) of the warnings is no part
    # of the property, so neither is matched here (second review, 9e): each kind of defect alone is enough for a warning, a sane state gives none
    n_warn = len(v.events("warning"))
    v.prove("negative_warning_iff_negative", SP.conj([SP.implies(neg, n_warn >= 1), SP.implies(r, n_warn == 0)]))
    v.prove("too_much_warning_iff_exceeding", SP.conj([SP.implies(much, n_warn >= 1), SP.implies(r, n_warn == 0)]))


def _same_vector(a, b):
    """value equality of two concentration vectors (a copy / np.asarray of the solver's vector is as good as the object itself)"""
    try:
        if len(a) != len(b):
            return False
        return SP.conj([ai == bi for ai, bi in zip(a, b)])
    except TypeError:
        return False


class _FakeNeqSys:
    def __init__(self, x, success):
        self.x, self.success, self.calls = x, success, []

    def solve(self, x0, params, **kw):
        self.calls.append((x0, params, kw))
        return self.x, {"success": self.success}


def _plumbing(method):
    @harness("C08", method + ".plumbing", functions=[EQ + ":EqSystem." + method], kind="shape-bounded", samples=0)
    def _(v):
        import numpy as np
        from chempy.equilibria import EqSystem
        es = _eqsys()
        n = es.ns
        x = _arr([v.real("x%d" % i, lo=-1, hi=100) for i in range(n)])
        success = v.bool("success")
        tag = {}

        def sane_contract(v_, self, init_concs, xx, rtol=1e-9):
            tag["args"] = (init_concs, xx)
            return "SANE-FLAG"
        v.contract(EqSystem._result_is_sane, "_result_is_sane", None, sane_contract)
        fake = _FakeNeqSys(x, success)
        c0 = np.array([55.5, 1e-7, 1e-7, 1e-3, 1e-3])
        if method == "root":
            rx, sol, sane = v.call(es.root, dict(zip(es.substances, c0)), neqsys=fake)
        else:
            rx, sol, sane = v.call(es._solve, c0, neqsys=fake)
        (x0, params, kw), = fake.calls
        v.prove("solver_gets_initial_state_then_constants", list(params) == list(c0) + [float(k) for k in es.eq_constants()])
        v.prove("default_start_is_initial_state", list(x0) == list(c0))
        v.prove("returns_solver_x_and_info", SP.conj([_same_vector(rx, x), SP.iff(sol["success"], success)]))
        v.prove("sanity_of_returned_x_against_same_initial_state", SP.conj([sane == "SANE-FLAG", _same_vector(tag["args"][1], x), list(tag["args"][0]) == list(c0)]))
        # the caller is TOLD (by a warning, in whatever words -- the text is no part of the property and is not matched) exactly when the solver
        # reports failure. _result_is_sane is replaced by its contract above, which emits nothing, so its own warnings (negative / too much,
        # decided in harness _result_is_sane) do not count here: every warning event on this path is root's/_solve's own
        warned = len(v.events("warning")) >= 1
        v.prove("failure_warning_iff_solver_reports_failure", SP.iff(warned, SP.neg(success)))
    return _


_plumbing("root")
_plumbing("_solve")


def _warm_start(method):
    @harness("C08", method + ".warm_start", functions=[EQ + ":EqSystem." + method], kind="shape-bounded", samples=0)
    def _(v):
        """an explicit start vector (e.g. the previous solution of a titration) only starts the solver: the conservation
        parameters and the sanity check still refer to the given initial concentrations"""
        import numpy as np
        from chempy.equilibria import EqSystem
        es = _eqsys()
        n = es.ns
        x = _arr([v.real("x%d" % i, lo=-1, hi=100) for i in range(n)])
        tag = {}
        v.contract(EqSystem._result_is_sane, "_result_is_sane", None, lambda v_, self, init_concs, xx, rtol=1e-9: tag.setdefault("args", (init_concs, xx)) and "SANE")
        fake = _FakeNeqSys(x, True)
        c0 = np.array([55.5, 1e-7, 1e-7, 1e-3, 1e-3])
        guess = np.array([55.4, 2e-7, 3e-7, 5e-4, 4e-4])
        if method == "root":
            rx, sol, sane = v.call(es.root, dict(zip(es.substances, c0)), x0=guess, neqsys=fake)
        else:
            rx, sol, sane = v.call(es._solve, c0, x0=guess, neqsys=fake)
        (x0, params, kw), = fake.calls
        v.prove("solver_started_from_the_guess", list(x0) == list(guess))
        v.prove("parameters_are_the_initial_state_not_the_guess", list(params) == list(c0) + [float(k) for k in es.eq_constants()])
        v.prove("sanity_against_the_initial_state", SP.conj([list(tag["args"][0]) == list(c0), _same_vector(tag["args"][1], x)]))
    return _


_warm_start("root")
_warm_start("_solve")


def _precip_system(v, solid_is_reactant=True, n=1):
    from chempy.chemistry import Equilibrium, Species
    from chempy.equilibria import EqSystem
    from collections import OrderedDict
    subs = OrderedDict((k, Species.from_formula(k)) for k in ["Na+", "Cl-", "NaCl(s)"])
    K = 4.0
    if solid_is_reactant:
        eq = Equilibrium({"NaCl(s)": n}, {"Na+": n, "Cl-": n}, K)
    else:
        eq = Equilibrium({"Na+": n, "Cl-": n}, {"NaCl(s)": n}, 1 / K)
    return EqSystem([eq], subs), K


@harness("C08", "dissolved", functions=[EQ + ":EqSystem.dissolved", "chempy.chemistry:Reaction.precipitate_stoich", "chempy.chemistry:Reaction.has_precipitates"], kind="shape-bounded", div_mode="assume", samples=0)
def _(v):
    which = v.choice("solid_is_reactant", [True, False])
    n = v.choice("coefficient", [1, 2, 3])
    es, K = _precip_system(v, which, n)
    c = [v.real("c%d" % i, lo=0, hi=10) for i in range(3)]
    d = v.call(es.dissolved, _arr(c))
    v.prove("solid_entry_becomes_zero", d[2] == 0)
    v.prove("ions_gain_the_dissolved_amount", SP.conj([d[0] == c[0] + c[2], d[1] == c[1] + c[2]]))
    B, keys = es.composition_balance_vectors()
    v.prove("element_and_charge_totals_kept", SP.conj([sum(B[r][j] * d[j] for j in range(3)) == sum(B[r][j] * c[j] for j in range(3)) for r in range(len(keys))]))


def _switch_band(fires, ion_product, Ksp, rel=1e-9):
    """the switch 'let the solid appear' written from the property: it MUST fire when the ion product of the fully dissolved state exceeds Ksp
    and MUST NOT fire when it is below. How close to Ksp the decision flips (the code: a relative 1e-14 on Q vs K) is no part of the property and
    is not copied (second review, 9e): only a RELATIVE band of 1e-9 around Ksp is left open, which a comparison of logarithms or another small
    relative tolerance also meets -- while an absolute tolerance fails for small Ksp, and a stale or inverted comparison fails everywhere"""
    return SP.conj([SP.implies(ion_product > Ksp * (1 + rel), fires), SP.implies(ion_product < Ksp * (1 - rel), SP.neg(fires))])


@harness("C08", "precipitation_switches", functions=[EQ + ":EqSystem._fw_cond_factory", EQ + ":EqSystem._fw_cond_factory.<locals>.fw_cond", EQ + ":EqSystem._bw_cond_factory",
                                                     EQ + ":EqSystem._bw_cond_factory.<locals>.bw_cond"], kind="shape-bounded", div_mode="assume", samples=0)
def _(v):
    which = v.choice("solid_is_reactant", [True, False])
    es, K = _precip_system(v, which)
    c = [v.real("c%d" % i, lo=1e-6, hi=10) for i in range(3)]
    x = _arr(c)
    fw = es._fw_cond_factory(0)
    bw = es._bw_cond_factory(0, 1e-30)
    ion_product = (c[0] + c[2]) * (c[1] + c[2])      # of the fully dissolved state
    r = v.call(fw, x, None)
    # NaCl(s) = Na+ + Cl- (K = Ksp) or Na+ + Cl- = NaCl(s) (K = 1/Ksp): precipitate while the ion product exceeds Ksp
    v.prove_nl("forward_iff_ion_product_exceeds_Ksp", _switch_band(r, ion_product, K))
    small = 1e-30
    v.prove("backward_iff_solid_gone", SP.iff(v.call(bw, x, None), SP.neg(c[2] < small)))
    # the condition object is kept by the solver object (get_neqsys) and re-used: it must decide with the constant the equilibrium has NOW.
    # The new constant ranges over the decades of real solubility products (1e-18 .. ; the concentrations go down to 1e-6, so both sides of
    # every Ksp are reached): the band is RELATIVE to Ksp for all of them
    K2 = v.real("Ksp_changed_later", lo=1e-18, hi=50)
    es.rxns[0].param = K2 if which else 1 / K2
    r2 = v.call(fw, x, None)
    v.prove_nl("forward_condition_follows_a_changed_constant", _switch_band(r2, ion_product, K2))


def _processors(name):
    @harness("C08", "processors_inverse." + name, functions=["chempy._eqsys:%s.pre_processor" % name, "chempy._eqsys:%s.post_processor" % name], kind="shape-bounded", div_mode="assume", samples=0)
    def _(v):
        import chempy._eqsys as E
        from pyvc.stubs import sym_exp, sym_log
        es = _eqsys()
        NS = getattr(E, name)(es, backend=math)
        n = es.ns
        x = [v.real("x%d" % i, lo=0, hi=100) for i in range(n)]
        # chempy (pyneqsys) hands the processors an ndarray of parameters, never a python list; what the property needs is that the VALUES of the
        # parameters (initial state, constants) reach the equations unchanged -- a copy / np.asarray of them is as good as the object itself
        params = _arr([v.real("p%d" % i, lo=0, hi=100) for i in range(n + es.nr)])
        y, p1 = v.call(NS.pre_processor, _arr(x), params)
        z, p2 = v.call(NS.post_processor, y, params)
        v.prove("parameters_passed_through", SP.conj([_same_vector(p1, params), _same_vector(p2, params)]))
        if name == "NumSysLog":
            small = E.NumSysLog.small
            for i in range(n):
                v.prove("log_then_exp_%d" % i, z[i] == sym_exp(sym_log(x[i] + small)))
        else:
            for i in range(n):
                v.prove_identity("sqrt_abs_then_square_%d" % i, z[i], x[i] + 0.0)
    return _


_processors("NumSysLog")
_processors("NumSysSquare")


@harness("C08", "internal_x0", functions=["chempy._eqsys:NumSysLog.internal_x0_cb", "chempy._eqsys:NumSysSquare.internal_x0_cb"], kind="data")
def _(v):
    import numpy as np
    import chempy._eqsys as E
    es = _eqsys()
    c0 = np.array([55.5, 1e-7, 1e-7, 1e-3, 1e-3])

    # every obligation decided on its own: an exception of the code under test (or a container type that compares differently) fails THAT
    # obligation and leaves the others standing
    def log_start():
        # the same start (0.1, in ln c) for each of the 5 species; list, tuple or ndarray alike
        r = E.NumSysLog(es).internal_x0_cb(c0, None)
        return len(r) == 5 and bool(np.allclose(np.asarray(r, dtype=float), 0.1, rtol=0, atol=1e-15))

    def square_start():
        r = np.asarray(E.NumSysSquare(es).internal_x0_cb(c0, None), dtype=float)
        return r.shape == (5,) and bool(np.allclose(r ** 2, c0))

    def small_constants():
        return bool(E.NumSysLog.small == math.exp(-36) and E.NumSysSquare.small == 1e-35 and E.NumSysLin.small == 0)
    for name, cond in [("log_start", log_start), ("square_start", square_start), ("small_constants", small_constants)]:
        try:
            v.prove(name, cond())
        except Exception as e:
            v.prove(name, False, detail="%s: %s" % (type(e).__name__, e))


def _rc(n_species):
    @harness("C08", "single_equilibrium.reaction_coordinate.n%d" % n_species, functions=["chempy._equilibrium:_get_rc_interval", "chempy._equilibrium:equilibrium_residual", "chempy.chemistry:equilibrium_quotient"],
             kind="shape-bounded", div_mode="assume", samples=0, max_paths=6000)
    def _(v):
        """what chempy contributes to solve_equilibrium (the root finder brentq is external): the bracket handed to brentq contains 0 and every
        reaction coordinate inside it leaves all concentrations non-negative; the residual is K - prod(c^nu) at c = c0 + nu*rc, so a root of it is a
        state with Q = K reached from c0 along the stoichiometry (hence conserving whatever the reaction conserves)"""
        from chempy._equilibrium import _get_rc_interval, equilibrium_residual
        nus = [v.int("nu%d" % i, lo=-3, hi=3) for i in range(n_species)]
        cs = [v.real("c%d" % i, lo=0, hi=100) for i in range(n_species)]
        v.assume(SP.conj([nu != 0 for nu in nus]))          # _solve_equilibrium_coord masks the zero coefficients out before calling
        out = v.run(_get_rc_interval, _arr(nus), _arr(cs))
        degenerate = SP.conj([SP.disj([c == 0, False]) for c in cs])
        if out.raised(ValueError):
            # refused only when no coordinate can move at all: some reactant and some product are exhausted, or everything is zero
            can_fwd = SP.conj([SP.implies(nu < 0, c > 0) for nu, c in zip(nus, cs)])
            can_bwd = SP.conj([SP.implies(nu > 0, c > 0) for nu, c in zip(nus, cs)])
            v.prove("refuses_only_a_zero_interval", SP.neg(SP.disj([SP.conj([can_fwd, SP.disj([nu < 0 for nu in nus])]), SP.conj([can_bwd, SP.disj([nu > 0 for nu in nus])])])))
            return
        lower, upper = out.value
        v.prove("bracket_contains_zero", SP.conj([lower <= 0, upper >= 0]))
        rc = v.real("rc", lo=-1e4, hi=1e4)
        v.assume(SP.conj([rc >= lower, rc <= upper]))
        for i, (nu, c) in enumerate(zip(nus, cs)):
            v.prove("inside_bracket_concentration_%d_non_negative" % i, c + nu * rc >= 0)
        # the ends are tight: beyond them some concentration is negative (so no admissible state is excluded)
        eps = v.real("eps", lo=0, hi=1)
        v.assume(eps > 0)
        v.prove_nl("beyond_upper_some_negative", SP.disj([c + nu * (upper + eps) < 0 for nu, c in zip(nus, cs)] + [SP.conj([nu > 0 for nu in nus])]))
        v.prove_nl("beyond_lower_some_negative", SP.disj([c + nu * (lower - eps) < 0 for nu, c in zip(nus, cs)] + [SP.conj([nu < 0 for nu in nus])]))
    return _


for _n in (2, 3):
    _rc(_n)


@harness("C08", "single_equilibrium.residual", functions=["chempy._equilibrium:equilibrium_residual", "chempy.chemistry:equilibrium_quotient"], kind="shape-bounded", div_mode="assume", samples=0, max_paths=400)
def _(v):
    from chempy._equilibrium import equilibrium_residual
    nus = [v.int("nu%d" % i, lo=-3, hi=3) for i in range(3)]
    cs = [v.real("c%d" % i, lo=0, hi=100) for i in range(3)]
    K, rc = v.real("K", lo=0, hi=1e6), v.real("rc", lo=-100, hi=100)
    v.assume(SP.conj([c + nu * rc > 0 for nu, c in zip(nus, cs)]))
    res = v.call(equilibrium_residual, rc, _arr(cs), _arr(nus), K)
    q = 1
    for nu, c in zip(nus, cs):
        q = q * SP.spow(c + nu * rc, nu)
    v.prove_identity("residual_is_K_minus_quotient_at_the_displaced_state", res, K - q)
    ap = v.real("activity_product", lo=0, hi=10)
    res2 = v.call(equilibrium_residual, rc, _arr(cs), _arr(nus), K, lambda c: ap)
    v.prove_identity("activity_product_multiplies_the_quotient", res2, K - q * ap)


@harness("C08", "sanity_of_special_values", functions=[EQ + ":EqSystem._result_is_sane", "chempy.reactionsystem:ReactionSystem.upper_conc_bounds"], kind="data")
def _(v):
    """'sane' must imply non-negative for EVERY species, also one whose elemental bound is infinite (an electron: no element in its composition),
    and a vector containing nan is not a composition at all"""
    import warnings
    import numpy as np
    from collections import OrderedDict
    from chempy.chemistry import Equilibrium, Species
    from chempy.equilibria import EqSystem
    subs = OrderedDict((k, Species.from_formula(k)) for k in ["H+", "e-", "H2"])
    es = EqSystem([Equilibrium({"H+": 2, "e-": 2}, {"H2": 1}, 10.0)], subs)
    c0 = {"H+": 1.0, "e-": 1.0, "H2": 0.5}
    def sane(state):        # an exception of the code under test is a wrong answer to every question asked below
        try:
            return es._result_is_sane(c0, np.array(state))
        except Exception as ex:
            return ex
    try:
        ub = list(es.upper_conc_bounds(c0))
    except Exception as ex:
        ub = [float("nan")] * 3 + [ex]
    # by hand: 2 mol/L of H in all (1 as H+, 2*0.5 as H2) -> at most 2 of H+, 1 of H2. The electron holds no element; what the contract needs is
    # only that its bound is no SMALLER than what the states reachable from c0 hold (charge balance: [e-] = [H+] <= 2) -- an infinite bound (the
    # code) and a finite one derived from the charge balance are both right (second review, 9e), a bound below 2 would reject genuine states
    v.prove("electron_has_no_elemental_bound", ub[1] >= 2.0 and ub[0] == 2.0 and ub[2] == 1.0, detail=repr(ub))
    with warnings.catch_warnings():
        warnings.simplefilter("ignore")
        v.prove("negative_unbounded_species_is_not_sane", sane([1.0, -0.87, 0.5]) is False)
        v.prove("negative_bounded_species_is_not_sane", sane([-1e-3, 1.0, 0.5]) is False)
        v.prove("above_the_bound_is_not_sane", sane([2.1, 1.0, 0.5]) is False)
        # the states reachable from c0 along 2 H+ + 2 e- = H2 are (1 - 2 xi, 1 - 2 xi, 0.5 + xi), -0.5 <= xi <= 0.5: an inner one and both ends
        # (the ends sit exactly ON the bounds: a bound is inclusive)
        v.prove("admissible_state_is_sane", all(sane(st) is True for st in ([0.5, 0.5, 0.75], [0.0, 0.0, 1.0], [2.0, 2.0, 0.0], [1.0, 1.0, 0.5])))
        v.prove("nan_is_not_sane", sane([np.nan, 1.0, 0.5]) is False and sane([np.nan] * 3) is False)
        # an infinite concentration is no composition either, also for the species without elemental bound (inf > inf*(1+rtol) is False)
        v.prove("infinity_is_not_sane", sane([1.0, np.inf, 0.5]) is False and sane([np.inf, 1.0, 0.5]) is False)


@harness("C08", "single_equilibrium.solve_equilibrium", functions=["chempy._equilibrium:solve_equilibrium", "chempy._equilibrium:_solve_equilibrium_coord", "chempy._equilibrium:_get_rc_interval",
                                                                 "chempy._equilibrium:equilibrium_residual"], kind="shape-bounded", div_mode="assume", samples=0, max_paths=6000)
def _(v):
    """solve_equilibrium around the external root finder: brentq is replaced by its contract (returns SOME coordinate inside the bracket at which
    the function it was given vanishes). Then the returned state is c0 + rc*nu (spectators untouched), non-negative, and has Q = K"""
    import scipy.optimize
    from chempy._equilibrium import solve_equilibrium
    nus = [v.int("nu%d" % i, lo=-3, hi=3) for i in range(3)]
    v.assume(SP.conj([nu != 0 for nu in nus]))
    cs = [v.real("c%d" % i, lo=0, hi=100) for i in range(3)]
    spectator = v.real("c_spectator", lo=0, hi=100)
    # the species that does not take part (coefficient 0) may stand anywhere in the vectors, not only at the end (second review, 7: a mask applied
    # as a length -- stoich[:len(mask)] -- is right only for a trailing spectator)
    slot = v.choice("spectator_slot", [0, 1, 3])
    at = [i for i in range(4) if i != slot]            # where the three reacting species stand
    full_cs, full_nus = list(cs), list(nus)
    full_cs.insert(slot, spectator)
    full_nus.insert(slot, 0)
    K = v.real("K", lo=1e-6, hi=1e6)
    seen = {}

    def brentq_contract(v_, f, a, b, args=(), **kw):
        rc = v_.fresh("rc", "real")
        v_.assume(SP.conj([rc >= a, rc <= b]))
        res = v_.interp.call(f, (rc,) + tuple(args))
        seen.update(a=a, b=b, rc=rc, res=res)
        v_.assume(res == 0)
        return rc
    v.contract(scipy.optimize.brentq, "brentq", None, brentq_contract)
    out = v.run(solve_equilibrium, full_cs, full_nus, K)
    if not out.returned:
        v.prove("refusal_is_a_ValueError", out.raised(ValueError))
        # ... and only a state that cannot move in either direction is refused (second review, 8; the same condition as for the bracket alone,
        # here through the masking of the spectator): forwards needs every reactant, backwards every product, to be there
        can_fwd = SP.conj([SP.implies(nu < 0, c > 0) for nu, c in zip(nus, cs)] + [SP.disj([nu < 0 for nu in nus])])
        can_bwd = SP.conj([SP.implies(nu > 0, c > 0) for nu, c in zip(nus, cs)] + [SP.disj([nu > 0 for nu in nus])])
        v.prove("refused_only_when_no_direction_can_move", SP.neg(SP.disj([can_fwd, can_bwd])))
        return
    x = out.value
    rc = seen["rc"]
    v.prove("state_moved_along_the_stoichiometry", SP.conj([len(x) == 4] + [v.eq(x[at[i]], cs[i] + rc * nus[i]) for i in range(3)]))
    v.prove("spectator_untouched", v.eq(x[slot], spectator))
    for i in range(3):
        v.prove("concentration_%d_non_negative" % i, x[at[i]] >= 0)
    q = 1
    for i in range(3):
        q = q * SP.spow(x[at[i]], nus[i])
    v.prove_identity("quotient_equals_constant", seen["res"], K - q)


@harness("C08", "dissolved.unequal_coefficients", functions=[EQ + ":EqSystem.dissolved", "chempy.chemistry:Reaction.precipitate_stoich"], kind="shape-bounded", div_mode="assume", samples=0)
def _(v):
    """a salt whose ions have different coefficients (CaF2 = Ca+2 + 2 F-, written in either direction): dissolving all of the solid adds ONE calcium
    and TWO fluoride per formula unit; element and charge totals are kept"""
    from chempy.chemistry import Equilibrium, Species
    from chempy.equilibria import EqSystem
    from collections import OrderedDict
    which = v.choice("solid_is_reactant", [True, False])
    subs = OrderedDict((k, Species.from_formula(k)) for k in ["F-", "CaF2(s)", "Ca+2"])
    eq = Equilibrium({"CaF2(s)": 1}, {"Ca+2": 1, "F-": 2}, 3.9e-11) if which else Equilibrium({"Ca+2": 1, "F-": 2}, {"CaF2(s)": 1}, 1 / 3.9e-11)
    es = EqSystem([eq], subs)
    c = [v.real("c%d" % i, lo=0, hi=10) for i in range(3)]       # F-, CaF2(s), Ca+2
    d = v.call(es.dissolved, _arr(c))
    v.prove("solid_entry_becomes_zero", d[1] == 0)
    v.prove("one_calcium_two_fluoride_per_formula_unit", SP.conj([d[2] == c[2] + c[1], d[0] == c[0] + 2 * c[1]]))
    hand = {"charge": [-1, 0, 2], "F": [1, 2, 0], "Ca": [0, 1, 1]}
    v.prove("element_and_charge_totals_kept", SP.conj([sum(w * x for w, x in zip(row, d)) == sum(w * x for w, x in zip(row, c)) for row in hand.values()]))
    fw = es._fw_cond_factory(0)
    ion_product = (c[2] + c[1]) * (c[0] + 2 * c[1]) * (c[0] + 2 * c[1])
    v.assume(SP.conj([ion_product > 0]))
    r = v.call(fw, _arr(c), None)
    v.prove_nl("precipitates_iff_ion_product_of_the_dissolved_state_exceeds_Ksp", _switch_band(r, ion_product, 3.9e-11))


def _same_equations(A, ks, WA, Wks):
    """do the equations  prod_j c_j**A[i][j] = ks[i]  and the hand-written  prod_j c_j**WA[i][j] = Wks[i]  say the same? Decided exactly for
    integer exponents and positive rational constants: in logarithms both are linear systems [A | ln k]; ln k = sum_p e_p ln p over the primes p
    of the constants, and the ln p are linearly independent over the rationals, so the systems are equivalent iff the rational matrices
    [A | e_2 e_3 e_5 ...] have the same row space (rank of each == rank of both stacked). Nothing about the ORDER of the equations, their sign
    (formation or dissolution direction), a common multiple of a row, or a row reduction enters -- but [solid]**n = small differs from
    [solid] = small, and 1/[solid] = small too. Returns (rank, rank of the hand-written, rank stacked)"""
    import sympy

    def rat(k):
        k = sympy.nsimplify(k) if isinstance(k, int) else k
        if not (isinstance(k, sympy.Rational) and k > 0):
            raise ValueError("constant %r is not a positive exact rational" % (k,))
        return k
    ks, Wks = [rat(k) for k in ks], [rat(k) for k in Wks]
    primes = sorted(set(p for k in ks + Wks for part in (k.p, k.q) for p in sympy.factorint(part)))

    def aug(rows, consts):
        out = []
        for row, k in zip(rows, consts):
            fp, fq = sympy.factorint(k.p), sympy.factorint(k.q)
            out.append([sympy.Rational(int(a)) if int(a) == a else sympy.nsimplify(a) for a in row] + [sympy.Integer(fp.get(p, 0) - fq.get(p, 0)) for p in primes])
        return sympy.Matrix(out)
    M, W = aug([list(r) for r in (A.tolist() if hasattr(A, "tolist") else A)], ks), aug(WA, Wks)
    return M.rank(), W.rank(), M.col_join(W).rank()


@harness("C08", "row_reduced_equations_with_precipitates", functions=[EQ + ":EqSystem.stoichs_constants", EQ + ":EqSystem.eq_constants", "chempy.reactionsystem:ReactionSystem.stoichs"],
         kind="data")
def _(v):
    """the optional row reduction of the equilibrium equations (rref_equil=True) must describe the SAME equations as the plain form for every
    assumed set of absent solids: 'A ln c = ln K' with, for an absent solid, the row '[solid] = small' -- so that a state claimed with the option on
    still meets the solubility products. Decided exactly (sympy rationals and symbolic logarithms): the augmented matrices [A | ln K] of the two
    forms have the same row space, for a two-salt system with a common ion plus a homogeneous equilibrium, all four presence patterns; and the
    plain form says what the property says (hand-written equations, compared as equations: _same_equations), whichever way the salt is written"""
    import sympy
    from chempy.chemistry import Equilibrium, Species
    from chempy.equilibria import EqSystem
    subs = (Species("Na+", 1, composition={11: 1}), Species("Cl-", -1, composition={17: 1}), Species("Ag+", 1, composition={47: 1}), Species("NH3", composition={7: 1, 1: 3}),
            Species("AgNH3+", 1, composition={47: 1, 7: 1, 1: 3}), Species("NaCl", composition={11: 1, 17: 1}, phase_idx=1), Species("AgCl", composition={47: 1, 17: 1}, phase_idx=1))
    eqsys = EqSystem([Equilibrium({"NaCl": 1}, {"Na+": 1, "Cl-": 1}, sympy.Integer(37)), Equilibrium({"AgCl": 1}, {"Ag+": 1, "Cl-": 1}, sympy.Rational(1, 5000)),
                      Equilibrium({"Ag+": 1, "NH3": 1}, {"AgNH3+": 1}, sympy.Integer(2000))], subs)
    small = sympy.Rational(1, 10 ** 9)

    def hand(npr, n_eq):
        """the property, written by hand over (Na+, Cl-, Ag+, NH3, AgNH3+, NaCl, AgCl): a solid that is present meets its solubility product
        ([Na+][Cl-] = 37, [Ag+][Cl-] = 1/5000), an absent one has [solid] = small; [AgNH3+] = 2000 [Ag+][NH3]"""
        rows = [[0, 0, 0, 0, 0, 1, 0] if 0 in npr else [1, 1, 0, 0, 0, 0, 0], [0, 0, 0, 0, 0, 0, 1] if 1 in npr else [0, 1, 1, 0, 0, 0, 0], [0, 0, -1, -1, 1, 0, 0]]
        consts = [small if 0 in npr else sympy.Integer(37), small if 1 in npr else sympy.Rational(1, 5000), sympy.Integer(2000)]
        return rows[:n_eq], consts[:n_eq]
    bad = []
    for npr in ((), (0,), (1,), (0, 1)):
        try:
            ks = eqsys.eq_constants(npr, None, small)
            A0, k0 = eqsys.stoichs_constants(ks, False, backend=sympy, non_precip_rids=npr)
            A1, k1 = eqsys.stoichs_constants(ks, True, backend=sympy, non_precip_rids=npr)
            M0 = sympy.Matrix([list(r) + [sympy.log(k)] for r, k in zip(A0.tolist(), k0)])
            M1 = sympy.Matrix([list(r) + [sympy.expand_log(sympy.log(k), force=True)] for r, k in zip(A1, k1)])
            ranks = _same_equations(A0, k0, *hand(npr, 3))
            if ranks != (3, 3, 3):
                bad.append((npr, "plain form", ranks, A0.tolist(), k0))
            r0, r1, r01 = M0.rank(), M1.rank(), M0.col_join(M1).rank()
            if not (r0 == r1 == r01 == 3):
                bad.append((npr, "row spaces differ", r0, r1, r01, M1.tolist()))
        except Exception as ex:
            bad.append((npr, repr(ex)[:200]))
    v.prove("same_equations_for_every_presence_pattern", not bad, detail=repr(bad[:2]))
    # the same salts written in the FORMATION direction (solid on the product side, K = 1/Ksp), one of them doubled: the SAME equations again. In
    # particular the equation for an absent solid is [solid] = small: not its reciprocal (1/[solid] = small has no solution near zero), and not
    # [solid]**|nu| = small -- 'absent' means absent whatever multiple of the reaction is written ([solid]**3 = small would leave
    # small**(1/3) ~ 6e-6 M of 'absent' solid)
    bad = []
    try:
        form = EqSystem([Equilibrium({"Na+": 1, "Cl-": 1}, {"NaCl": 1}, sympy.Rational(1, 37)), Equilibrium({"Ag+": 2, "Cl-": 2}, {"AgCl": 2}, sympy.Integer(5000) ** 2)], subs)
        for npr in ((), (0,), (1,), (0, 1)):
            A, k = form.stoichs_constants(form.eq_constants(npr, None, small), False, backend=sympy, non_precip_rids=npr)
            ranks = _same_equations(A, k, *hand(npr, 2))
            if ranks != (2, 2, 2):
                bad.append((npr, ranks, A.tolist(), k))
    except Exception as ex:
        bad.append(repr(ex)[:200])
    v.prove("absent_solid_equation_in_the_formation_direction", not bad, detail=repr(bad[:2]))
    bad = []
    try:
        for make in (lambda: Equilibrium({"NaCl": 3}, {"Na+": 3, "Cl-": 3}, sympy.Integer(37) ** 3), lambda: Equilibrium({"Na+": 3, "Cl-": 3}, {"NaCl": 3}, sympy.Rational(1, 37 ** 3))):
            x3 = EqSystem([make()], subs)
            for npr in ((), (0,)):
                A, k = x3.stoichs_constants(x3.eq_constants(npr, None, small), False, backend=sympy, non_precip_rids=npr)
                ranks = _same_equations(A, k, *hand(npr, 1))
                if ranks != (1, 1, 1):
                    bad.append((npr, ranks, A.tolist(), k))
    except Exception as ex:
        bad.append(repr(ex)[:200])
    v.prove("absent_solid_equation_does_not_depend_on_the_multiple_written", not bad, detail=repr(bad[:2]))


def _water_and_salt(formation, m=1, Ksp=1.8e-10):
    """water listed FIRST (so the index of the salt among the reactions, 1, differs from its index among the phase-transfer reactions, 0), then
    AgCl with its real solubility product, written as dissolution (K = Ksp**m) or formation (K = Ksp**-m) with every coefficient m"""
    from chempy.chemistry import Equilibrium, Species
    from chempy.equilibria import EqSystem
    from collections import OrderedDict
    names = ["H2O", "H+", "OH-", "Ag+", "Cl-", "AgCl(s)"]
    subs = OrderedDict((k, Species.from_formula(k)) for k in names)
    Kw = 1e-14 / 55.5
    salt = Equilibrium({"Ag+": m, "Cl-": m}, {"AgCl(s)": m}, Ksp ** -m) if formation else Equilibrium({"AgCl(s)": m}, {"Ag+": m, "Cl-": m}, Ksp ** m)
    return EqSystem([Equilibrium({"H2O": 1}, {"H+": 1, "OH-": 1}, Kw), salt], subs), names, Kw, Ksp


@harness("C08", "equations_for_a_presence_pattern", functions=["chempy._eqsys:_NumSys._get_A_ks", EQ + ":EqSystem.non_precip_rids", EQ + ":EqSystem.phase_transfer_reaction_idxs",
                                                               EQ + ":EqSystem.eq_constants", EQ + ":EqSystem.stoichs_constants"], kind="data")
def _(v):
    """the step from the switches to the equations (second review, 4): a formulation built for the pattern 'solid present' / 'solid absent' solves
    one equation per equilibrium -- water's own and, for the salt, [Ag+][Cl-] = Ksp when present resp. [AgCl] = small (the formulation's own
    negligible amount) when absent -- for every formulation, either direction and multiple of the salt, with a homogeneous equilibrium listed
    before the salt. Equations are compared as equations: a row and its constant may be raised to any common non-zero power"""
    import chempy._eqsys as E
    from math import gcd
    from functools import reduce

    def normal(A, ks):
        """each equation prod c**row = k with the exponents made coprime and the first one positive (both sides raised to 1/(+-gcd))"""
        out = []
        for row, k in zip((A.tolist() if hasattr(A, "tolist") else A), ks):
            row = [int(a) for a in row]
            g = reduce(gcd, [abs(a) for a in row if a])
            g = g if [a for a in row if a][0] > 0 else -g
            if k == 0 and g < 0:
                raise ValueError("equation %r = 0 has no solution" % (row,))
            out.append((tuple(a // g for a in row), float(k) ** (1.0 / g) if k != 0 else 0.0))
        return out

    def same(got, want):
        got = list(got)
        for row, k in want:
            hit = [i for i, (r2, k2) in enumerate(got) if r2 == row and (k2 == k or (k and abs(k2 / k - 1) < 1e-12))]
            if not hit:
                return False
            del got[hit[0]]
        return not got
    bad, rids = [], []
    for formation in (False, True):
        for m in (1, 2):
            try:
                es, names, Kw, Ksp = _water_and_salt(formation, m)
                rids.append((sorted(es.non_precip_rids((False,))), sorted(es.non_precip_rids((True,)))))
                params = [float(r.param) for r in es.rxns]
                for name in ("NumSysLin", "NumSysLog", "NumSysSquare"):
                    NS = getattr(E, name)
                    for present in (True, False):
                        got = normal(*NS(es, precipitates=(present,), backend=math)._get_A_ks(params))
                        want = [((1, -1, -1, 0, 0, 0), 1 / Kw), ((0, 0, 0, 1, 1, 0), Ksp) if present else ((0, 0, 0, 0, 0, 1), float(NS.small))]
                        if not same(got, want):
                            bad.append((formation, m, name, present, got))
            except Exception as ex:
                bad.append((formation, m, repr(ex)[:200]))
    v.prove("absent_patterns_select_the_salt_not_the_water", rids == [([1], [])] * 4, detail=repr(rids))
    v.prove("one_equation_per_equilibrium_Ksp_when_present_small_when_absent", not bad, detail=repr(bad[:3]))


def _genuine(x, c0, Kw, Ksp):
    """the property for (H2O, H+, OH-, Ag+, Cl-, AgCl(s)), written by hand with the tolerances of the sampled stand-in: returns the complaints"""
    out = []
    x = [float(xi) for xi in x]
    if not all(math.isfinite(xi) and xi >= -1e-12 for xi in x):
        return ["negative or not finite: %r" % (x,)]
    hand = {"H": [2, 1, 1, 0, 0, 0], "O": [1, 0, 1, 0, 0, 0], "Ag": [0, 0, 0, 1, 0, 1], "Cl": [0, 0, 0, 0, 1, 1], "charge": [0, 1, -1, 1, -1, 0]}
    for k, row in hand.items():
        if abs(sum(w * (a - b) for w, a, b in zip(row, x, c0))) > 1e-6 * sum(abs(w) * (abs(a) + b) for w, a, b in zip(row, x, c0)) + 1e-12:
            out.append("total of %s not kept" % k)
    if min(x[:5]) <= 0:
        return out + ["a dissolved species is exactly zero (Q = K cannot hold): %r" % (x,)]
    if abs(math.log(x[1] * x[2] / x[0] / Kw)) > 1e-5:
        out.append("water: Q/K = %.6g" % (x[1] * x[2] / x[0] / Kw))
    ratio = x[3] * x[4] / Ksp
    if x[5] > 1e-10 and abs(math.log(ratio)) > 1e-5:
        out.append("solid present (%.3g) with ion product %.6g Ksp" % (x[5], ratio))
    if x[5] <= 1e-10 and ratio > 1 + 1e-5:
        out.append("no solid with ion product %.6g Ksp" % ratio)
    return out


@harness("C08", "solver_chains_on_a_real_salt", functions=[EQ + ":EqSystem.root", EQ + ":EqSystem.get_neqsys", EQ + ":EqSystem.get_neqsys_chained_conditional", EQ + ":EqSystem.get_neqsys_conditional_chained",
                                                           EQ + ":EqSystem.get_neqsys_static_conditions", EQ + ":EqSystem._SymbolicSys_from_NumSys", EQ + ":EqSystem.non_precip_rids",
                                                           "chempy._eqsys:_NumSys._get_A_ks", "chempy._eqsys:NumSysLog.f"], kind="data")
def _(v):
    """the property itself on hand-picked witnesses that the generated systems of the stand-in do not reach (second review, 1, 3, 4, 5): silver
    chloride with its REAL solubility product 1.8e-10 next to water (listed first), the salt written as dissolution or as formation, with
    coefficients 1 or 3; initial states in which solid must remain and in which none may; every way of building the solver that root() offers
    (neqsys_type chained_conditional -- the default --, conditional_chained, and static_conditions told the pattern that is the right one for
    the case), logarithmic formulation (root's default). Whenever success and sane are claimed the state must be genuine (_genuine); an exception
    is a complaint too. (The chain (NumSysLog, NumSysLin) of EqSystem.solve is NOT run here: see the report of the second review, item 1)"""
    import warnings
    remains = [[0.1, 0.05, 0.0], [0.5, 2.0, 0.0], [0.0, 0.01, 0.2], [1e-3, 1e-3, 0.0]]           # all dissolved: ion product >= 1e-6 >> Ksp
    dissolves = [[1e-5, 1e-5, 0.0], [2e-6, 1e-6, 3e-6], [3e-6, 0.0, 2e-6], [1e-3, 0.0, 1e-8], [0.01, 1e-9, 5e-9]]   # all dissolved: ion product <= 1e-10 < Ksp
    bad, claimed = [], {}
    for formation in (False, True):
        for m in (1, 3):
            try:
                es, names, Kw, Ksp = _water_and_salt(formation, m)
            except Exception as ex:
                bad.append((formation, m, repr(ex)[:200]))
                continue
            for regime, cases in (("solid_remains", remains), ("solid_dissolves", dissolves)):
                for how, kw in (("chained_conditional", {}), ("conditional_chained", {}), ("static_conditions", {"precipitates": (regime == "solid_remains",)})):
                    for c in cases:
                        c0 = [55.5, 1e-7, 1e-7] + c
                        try:
                            with warnings.catch_warnings():
                                warnings.simplefilter("ignore")
                                x, sol, sane = es.root(dict(zip(names, c0)), neqsys_type=how, **kw)
                            if sol["success"] and sane:
                                claimed[(how, regime)] = claimed.get((how, regime), 0) + 1
                                why = _genuine(x, c0, Kw, Ksp)
                                if why:
                                    bad.append((formation, m, how, c, why))
                        except Exception as ex:
                            bad.append((formation, m, how, c, repr(ex)[:120]))
    v.prove("claimed_states_are_genuine", not bad, detail=repr(bad[:3]))
    # not vacuous: in both regimes each way of building the solver does claim success for at least half of the 4 x 4 resp. 4 x 5 runs
    want = {(how, regime): n for how in ("chained_conditional", "conditional_chained", "static_conditions") for regime, n in (("solid_remains", 8), ("solid_dissolves", 10))}
    v.prove("claims_are_made_in_both_regimes_by_every_chain", all(claimed.get(k, 0) >= n for k, n in want.items()), detail=repr(claimed))


def _salt_from_text(formation, m, substances, **kw):
    """the system of _water_and_salt written down as TEXT (the way the README sets up an equilibrium system), water first; `substances` is
    None (the species are collected from the reactions) or the species names as list / tuple / blank-separated string / set"""
    from chempy.equilibria import EqSystem
    names = ["H2O", "H+", "OH-", "Ag+", "Cl-", "AgCl(s)"]
    Kw, Ksp = 1e-14 / 55.5, 1.8e-10
    pre = "" if m == 1 else "%d " % m
    ions, solid = "%sAg+ + %sCl-" % (pre, pre), "%sAgCl(s)" % pre
    salt = "%s = %s; %r" % (ions, solid, Ksp ** -m) if formation else "%s = %s; %r" % (solid, ions, Ksp ** m)
    text = "# water, then the salt\nH2O = H+ + OH-; %r\n%s\n" % (Kw, salt)
    given = {"collected": None, "list": names, "tuple": tuple(names), "string": " ".join(names), "set": set(names)}[substances]
    return EqSystem.from_string(text, given, **kw), names, Kw, Ksp


@harness("C08", "salt_written_as_text", functions=["chempy.reactionsystem:ReactionSystem.from_string", "chempy.reactionsystem:ReactionSystem.__init__", EQ + ":EqSystem.root",
                                                   EQ + ":EqSystem.phase_transfer_reaction_idxs", EQ + ":EqSystem.other_phase_species_idxs", "chempy.chemistry:Reaction.has_precipitates"], kind="data")
def _(v):
    """the precipitation clause does not depend on HOW the system was written down: an equilibrium system set up from text (EqSystem.from_string,
    species collected from the reactions or named as list / tuple / string / set, or with the species factory named explicitly) whose salt carries
    the phase suffix '(s)' is the same precipitation system as the one built from Species objects. (a) the salt -- and only the salt -- is a
    phase-transfer equilibrium and the solid -- and only the solid -- a species of another phase, wherever they stand; (b) the property itself:
    whenever root() claims success and a sane result, solid present => [Ag+][Cl-] = Ksp, solid absent => [Ag+][Cl-] <= Ksp, water's Q = K,
    totals kept (_genuine), for states in which solid must remain and in which none may, under every way of building the solver. A solid that is
    solved for like a solute (Q = [Ag+][Cl-]/[AgCl(s)] = Ksp) conserves everything and is non-negative, but is not genuine"""
    import warnings
    from chempy.chemistry import Species
    variants = [(False, 1, "collected", {}), (True, 1, "collected", {}), (False, 2, "collected", {}), (False, 1, "list", {}), (True, 1, "string", {}), (False, 1, "tuple", {}),
                (True, 2, "set", {}), (False, 1, "collected", {"substance_factory": Species.from_formula}), (True, 1, "list", {"substance_factory": Species.from_formula})]
    bad = []
    for formation, m, substances, kw in variants:
        try:
            es, names, Kw, Ksp = _salt_from_text(formation, m, substances, **kw)
            keys = list(es.substances)
            if sorted(keys) != sorted(names) or (substances in ("list", "tuple", "string") and keys != names):
                bad.append((formation, m, substances, "species", keys))
                continue
            salt = [i for i, r in enumerate(es.rxns) if "AgCl(s)" in r.keys()]
            got = (sorted(es.phase_transfer_reaction_idxs()), sorted(es.other_phase_species_idxs()), [bool(r.has_precipitates(es.substances)) for r in es.rxns])
            want = (salt, [keys.index("AgCl(s)")], [i in salt for i in range(len(es.rxns))])
            if len(es.rxns) != 2 or len(salt) != 1 or got != want:
                bad.append((formation, m, substances, sorted(kw), got, want))
        except Exception as ex:
            bad.append((formation, m, substances, sorted(kw), repr(ex)[:200]))
    v.prove("solid_of_a_text_system_is_another_phase", not bad, detail=repr(bad[:3]))
    remains = [[0.1, 0.05, 0.0], [0.0, 0.01, 0.2], [1e-3, 2e-3, 0.0]]                 # all dissolved: ion product >= 2e-6 >> Ksp = 1.8e-10
    dissolves = [[1e-5, 1e-5, 0.0], [1e-6, 2e-6, 0.0], [2e-6, 1e-6, 3e-6], [1e-3, 0.0, 1e-8]]     # all dissolved: ion product <= 1e-10 < Ksp
    bad, claimed = [], {}
    for formation, m, substances, kw in variants[:5]:
        try:
            es, names, Kw, Ksp = _salt_from_text(formation, m, substances, **kw)
            keys = list(es.substances)
        except Exception as ex:
            bad.append((formation, m, substances, repr(ex)[:200]))
            continue
        for regime, cases in (("solid_remains", remains), ("solid_dissolves", dissolves)):
            for how, kw2 in (("chained_conditional", {}), ("conditional_chained", {}), ("static_conditions", {"precipitates": (regime == "solid_remains",)})):
                for c in cases:
                    c0 = [55.5, 1e-7, 1e-7] + c
                    try:
                        with warnings.catch_warnings():
                            warnings.simplefilter("ignore")
                            x, sol, sane = es.root(dict(zip(names, c0)), neqsys_type=how, **kw2)
                        if sol["success"] and sane:
                            claimed[(how, regime)] = claimed.get((how, regime), 0) + 1
                            why = _genuine([x[keys.index(k)] for k in names], c0, Kw, Ksp)      # by NAME: the order of the species is the system's business
                            if why:
                                bad.append((formation, m, substances, how, c, why))
                    except Exception as ex:
                        bad.append((formation, m, substances, how, c, repr(ex)[:120]))
    v.prove("claimed_states_are_genuine", not bad, detail=repr(bad[:3]))
    # not vacuous: in both regimes each way of building the solver does claim success for at least half of the 5 x 3 resp. 5 x 4 runs
    want = {(how, regime): n for how in ("chained_conditional", "conditional_chained", "static_conditions") for regime, n in (("solid_remains", 8), ("solid_dissolves", 10))}
    v.prove("claims_are_made_in_both_regimes_by_every_chain", all(claimed.get(k, 0) >= n for k, n in want.items()), detail=repr(claimed))


@harness("C08", "single_equilibrium.integer_inputs", functions=["chempy._equilibrium:solve_equilibrium"], kind="data")
def _(v):
    """the single-equilibrium solver for concentrations given as integers (a list of ints, an integer array): the answer is the same as for the
    same numbers as floats -- Q = K, spectators untouched, element totals kept -- not the floats cut back to integers; the caller's array is
    not written to. A + B = C + D with K = 1/2 from (3, 2, 1, 0): (1 + xi) xi = (3 - xi)(2 - xi)/2 gives xi = (sqrt(73) - 7)/2 by hand; the
    spectator (7, and a second one 9) stands last, or first and in the middle"""
    import numpy as np
    from chempy._equilibrium import solve_equilibrium
    K, xi = 0.5, (math.sqrt(73) - 7) / 2
    layouts = (((-1, -1, 1, 1, 0), [3, 2, 1, 0, 7], [3 - xi, 2 - xi, 1 + xi, xi, 7.0]),
               ((0, -1, 0, -1, 1, 1), [7, 3, 9, 2, 1, 0], [7.0, 3 - xi, 9.0, 2 - xi, 1 + xi, xi]))
    bad, arrays = [], []
    for stoich, ints, hand in layouts:
        arr = np.array(ints)
        arrays.append((arr, ints))
        for label, c0 in (("floats", [float(i) for i in ints]), ("list_of_ints", list(ints)), ("tuple_of_ints", tuple(ints)), ("int_array", arr)):
            try:
                got = np.asarray(solve_equilibrium(c0, stoich, K), dtype=float)
                if not (got.shape == (len(ints),) and np.allclose(got, hand, rtol=1e-9, atol=1e-9) and all(got[i] == ints[i] for i, nu in enumerate(stoich) if nu == 0)):
                    bad.append((stoich, label, got.tolist()))
            except Exception as ex:
                bad.append((stoich, label, repr(ex)[:80]))
    v.prove("same_answer_as_for_floats", not bad, detail=repr(bad[:3]))
    v.prove("callers_array_not_written_to", all(arr.tolist() == ints for arr, ints in arrays))
