"""Exact linear algebra over fractions.Fraction, shared by the bounded stand-ins (C02, C15).

Written independently of chempy / sympy: plain Gauss-Jordan elimination.
"""
from fractions import Fraction
from functools import reduce
from math import gcd


def rref(rows, ncols):
    """Reduced row echelon form of a list of rows (lists of Fraction). Returns (rows, pivot_cols)."""
    m = [[Fraction(x) for x in r] for r in rows]
    piv = []
    r = 0
    for c in range(ncols):
        p = None
        for i in range(r, len(m)):
            if m[i][c] != 0:
                p = i
                break
        if p is None:
            continue
        m[r], m[p] = m[p], m[r]
        inv = 1 / m[r][c]
        m[r] = [x * inv for x in m[r]]
        for i in range(len(m)):
            if i != r and m[i][c] != 0:
                f = m[i][c]
                m[i] = [a - f * b for a, b in zip(m[i], m[r])]
        piv.append(c)
        r += 1
        if r == len(m):
            break
    return m[:r], piv


def nullspace(rows, ncols):
    """Basis (list of lists of Fraction) of {x : rows . x = 0}; one vector per free column,
    with 1 in its own free position and 0 in the other free positions. Also returns the free columns."""
    red, piv = rref(rows, ncols)
    free = [c for c in range(ncols) if c not in piv]
    basis = []
    for f in free:
        v = [Fraction(0)] * ncols
        v[f] = Fraction(1)
        for r, pc in zip(red, piv):
            v[pc] = -r[f]
        basis.append(v)
    return basis, free


def primitive(vec):
    """Scale a rational vector to the integer vector with gcd 1 pointing the same way."""
    den = reduce(lambda a, b: a * b // gcd(a, b), [Fraction(x).denominator for x in vec], 1)
    ints = [int(Fraction(x) * den) for x in vec]
    g = reduce(gcd, [abs(i) for i in ints], 0)
    if g == 0:
        return ints
    return [i // g for i in ints]


def lcm_den(vecs):
    return reduce(lambda a, b: a * b // gcd(a, b), [Fraction(x).denominator for v in vecs for x in v], 1)
