"""C04  Generated ODE system is exactly the kinetic model of the reaction system."""
from collections import OrderedDict

from pyvc.api import harness
from pyvc import spec as SP
from pyvc.sym import Sym

META = {
    "explanation": "get_odesys is executed symbolically up to and through SymbolicSys.from_callback (assumed contract 5.6, given as a stand-in class through the function's own SymbolicSys parameter, no patching): the closure dydt is proved to return, for every substance in substance order, sum_r net_r(s) * k_r * prod c^nu (+ feed terms when cstr), with names = substance names, param_names = parameter keys (plus registered unique keys when parameters are kept free), linear invariants = composition_balance_vectors; binding each free unique key to the value _reg_unique stored reproduces the inlined right-hand side exactly; rate_exprs_cb receives one expression per reaction from the same rate expressions; passive and active substitutions only change which symbols are free; reserved key 'time' is refused; _create_odesys pairs (substance symbol, rate) in substance order",
    "trusted_base": ["assumed contract 5.6: SymbolicSys.from_callback(cb, names=, param_names=, dep_by_name, par_by_name) calls cb(indep, {name: dep}, {pname: par}, backend) once, stores exprs[i] = returned[names[i]] and refuses a size mismatch (read in the installed pyodesys source; exercised by the bounded translation validation)"],
    "not_decided": ["what pyodesys does with the expressions afterwards (code generation, integration): bounded translation validation and C06"],
    "assumptions": ["system shapes fixed per harness (catalysts, inactive parts, sources, spectators); rate constants and concentrations symbolic"],
}
ODE = "chempy.kinetics.ode"


class FakeBackend:
    """stands for odesys.be (sympy in the real package): only identity/real arithmetic is needed by chempy's closures"""
    pass


class FakeSymbolicSys:
    """assumed contract 5.6 of pyodesys.symbolic.SymbolicSys (the part chempy relies on)"""
    last = None

    def __init__(self):
        pass

    @classmethod
    def from_callback(cls, cb, ny=None, nparams=None, dep_by_name=False, par_by_name=False, names=None, param_names=(), latex_names=None,
                      linear_invariants=None, linear_invariant_names=None, **kwargs):
        import z3
        self = cls()
        self.names = tuple(names)
        self.param_names = tuple(param_names)
        self.indep = Sym(z3.Real("t"))
        self.dep = tuple(Sym(z3.Real("y_" + n)) for n in self.names)
        self.params = tuple(Sym(z3.Real("p_" + n)) for n in self.param_names)
        self.be = FakeBackend()
        self.kwargs = kwargs
        self.linear_invariants = linear_invariants
        self.linear_invariant_names = linear_invariant_names
        self.latex_names = latex_names
        assert dep_by_name and par_by_name
        ret = cb(self.indep, dict(zip(self.names, self.dep)), dict(zip(self.param_names, self.params)), self.be)
        if len(ret) != len(self.names):
            raise ValueError("Callback returned unexpected (%d) number of expressions: %d" % (len(self.names), len(ret)))
        self.exprs = tuple(ret[n] for n in self.names)
        self.ny = len(self.names)
        cls.last = self
        return self

    def _callback_factory(self, exprs):
        self.cb_exprs = list(exprs)
        return lambda *a: self.cb_exprs

    # identity pre-processing (no units): used by max_euler_step_cb
    def to_arrays(self, x, y, p):
        return [x], y, p

    def pre_process(self, x, y, p):
        return x, y, p

    def __getitem__(self, key):
        return self.dep[self.names.index(key)]


SUBST = ["C", "A", "E", "B", "D"]     # deliberately neither alphabetical nor the order of first appearance in the reactions


def layouts():
    return {
        "two_shared": [(["A", "B"], ["C"], [], []), (["A", "B"], ["B", "C"], [], [])],
        "inactive_mix": [(["A"], ["C"], ["A", "B"], ["C", "D"]), (["A"], ["B"], [], []), (["A", "B"], ["C"], [], [])],
        "source_sink": [([], ["A"], [], []), (["A"], ["B"], [], [])],
    }


def build(v, lays, unique=False, named=False):
    from chempy.chemistry import Reaction, Substance
    from chempy.reactionsystem import ReactionSystem
    from chempy.kinetics.rates import MassAction
    rxns, ds, ks = [], [], []
    for i, (reac, prod, ireac, iprod) in enumerate(lays):
        mk = lambda side, keys: {k: v.int("r%d_%s_%s" % (i, side, k), lo=1, hi=3) for k in keys}
        d = [mk("r", reac), mk("p", prod), mk("ir", ireac), mk("ip", iprod)]
        k = v.real("k%d" % i, lo=0, hi=9)
        if named:
            param = "kk%d" % i
        elif unique:
            param = MassAction([k], unique_keys=("kk%d" % i,))
        else:
            param = k
        rxns.append(Reaction(dict(d[0]), dict(d[1]), param, dict(d[2]) or None, dict(d[3]) or None, checks=()))
        ds.append(d)
        ks.append(k)
    rsys = ReactionSystem(rxns, [Substance(s) for s in SUBST], checks=())
    return rsys, ds, ks


def spec_rhs(ds, ks, conc):
    out = {}
    for s in SUBST:
        tot = 0
        for d, k in zip(ds, ks):
            cp = 1
            for key, nu in d[0].items():
                cp = cp * SP.spow(conc[key], nu)
            net = d[1].get(s, 0) - d[0].get(s, 0) + d[3].get(s, 0) - d[2].get(s, 0)
            tot = tot + net * k * cp
        out[s] = tot
    return out


def _inline(name, lays):
    @harness("C04", "get_odesys.inlined." + name, functions=[ODE + ":get_odesys", ODE + ":get_odesys.<locals>.dydt", ODE + ":get_odesys.<locals>.reaction_rates",
                                                             "chempy.reactionsystem:ReactionSystem.rates"], kind="shape-bounded", samples=0, max_paths=300)
    def _(v):
        from chempy.kinetics.ode import get_odesys
        rsys, ds, ks = build(v, lays)
        odesys, extra = v.call(get_odesys, rsys, SymbolicSys=FakeSymbolicSys)
        conc = dict(zip(odesys.names, odesys.dep))
        rhs = spec_rhs(ds, ks, conc)
        v.prove("one_equation_per_substance_in_substance_order", list(odesys.names) == SUBST and len(odesys.exprs) == len(SUBST))
        v.prove("right_hand_side_is_NT_times_rates", SP.conj([v.eq(e, rhs[s]) for e, s in zip(odesys.exprs, SUBST)]))
        v.prove("no_parameters_when_inlined", list(odesys.param_names) == [] and extra["param_keys"] == [] and list(extra["unique"]) == [])
        v.prove("linear_invariants_absent_without_compositions", odesys.linear_invariants is None)
        per_rxn = odesys.cb_exprs
        v.prove("rate_exprs_cb_one_per_reaction", len(per_rxn) == len(ds))
        for i, (d, k) in enumerate(zip(ds, ks)):
            cp = 1
            for key, nu in d[0].items():
                cp = cp * SP.spow(conc[key], nu)
            v.prove("rate_exprs_cb_%d" % i, v.eq(per_rxn[i], k * cp))
        v.prove("no_cstr", extra["cstr_fr_fc"] is False and extra["unit_registry"] is None and extra["p_units"] is None)
    return _


for _n, _l in layouts().items():
    _inline(_n, _l)


def _free(name, lays):
    @harness("C04", "get_odesys.free_params." + name, functions=[ODE + ":get_odesys", ODE + ":get_odesys.<locals>._reg_unique", ODE + ":get_odesys.<locals>.dydt"], kind="shape-bounded", samples=0, max_paths=300)
    def _(v):
        from chempy.kinetics.ode import get_odesys
        rsys, ds, ks = build(v, lays, unique=True)
        odesys, extra = v.call(get_odesys, rsys, include_params=False, SymbolicSys=FakeSymbolicSys)
        uk = ["kk%d" % i for i in range(len(ds))]
        v.prove("unique_keys_are_parameters_in_reaction_order", list(odesys.param_names) == uk)
        v.prove("each_key_registered_with_its_own_constant", list(extra["unique"].keys()) == uk and SP.conj([extra["unique"][u] == k for u, k in zip(uk, ks)]))
        conc = dict(zip(odesys.names, odesys.dep))
        psym = dict(zip(odesys.param_names, odesys.params))
        rhs_free = spec_rhs(ds, [psym[u] for u in uk], conc)
        v.prove("right_hand_side_in_free_symbols", SP.conj([v.eq(e, rhs_free[s]) for e, s in zip(odesys.exprs, SUBST)]))
        # binding every registered key to the value stored for it gives the inlined right-hand side
        import z3
        rhs_inl = spec_rhs(ds, ks, conc)
        subs = [(psym[u].e, extra["unique"][u].e) for u in uk]
        v.prove("binding_registered_values_reproduces_inlined_rhs",
                SP.conj([Sym(z3.substitute(e.e, *subs)) == rhs_inl[s] if isinstance(e, Sym) else e == rhs_inl[s] for e, s in zip(odesys.exprs, SUBST)]))
        # the same system with parameters inlined
        ode2, extra2 = v.call(get_odesys, rsys, include_params=True, SymbolicSys=FakeSymbolicSys)
        conc2 = dict(zip(ode2.names, ode2.dep))
        v.prove("include_params_inlines_the_same_values", SP.conj([v.eq(e, spec_rhs(ds, ks, conc2)[s]) for e, s in zip(ode2.exprs, SUBST)]) and list(ode2.param_names) == [])
    return _


for _n, _l in layouts().items():
    _free(_n, _l)


@harness("C04", "get_odesys.named_params_and_substitutions", functions=[ODE + ":get_odesys", ODE + ":get_odesys.<locals>.dydt"], kind="shape-bounded", samples=0, max_paths=300)
def _(v):
    from chempy.kinetics.ode import get_odesys
    from chempy.kinetics.rates import MassAction
    lays = layouts()["two_shared"]
    rsys, ds, ks = build(v, lays, named=True)
    odesys, extra = v.call(get_odesys, rsys, include_params=False, SymbolicSys=FakeSymbolicSys)
    v.prove("named_keys_become_parameters", list(odesys.param_names) == ["kk0", "kk1"] and list(extra["unique"]) == ["kk0", "kk1"])
    conc = dict(zip(odesys.names, odesys.dep))
    psym = dict(zip(odesys.param_names, odesys.params))
    v.prove("rhs_in_named_symbols", SP.conj([v.eq(e, spec_rhs(ds, [psym["kk0"], psym["kk1"]], conc)[s]) for e, s in zip(odesys.exprs, SUBST)]))
    # passive substitution: the key is bound to a number and disappears from the parameters
    val = v.real("subst_value", lo=0, hi=9)
    ode3, extra3 = v.call(get_odesys, rsys, include_params=False, substitutions={"kk1": val}, SymbolicSys=FakeSymbolicSys)
    conc3 = dict(zip(ode3.names, ode3.dep))
    p3 = dict(zip(ode3.param_names, ode3.params))
    v.prove("substituted_key_not_a_parameter", list(ode3.param_names) == ["kk0"])
    v.prove("substitution_changes_only_which_symbols_are_free", SP.conj([v.eq(e, spec_rhs(ds, [p3["kk0"], val], conc3)[s]) for e, s in zip(ode3.exprs, SUBST)]))
    out = v.run(get_odesys, rsys, substitutions={"nonexistent": 1.0}, SymbolicSys=FakeSymbolicSys)
    v.prove("unknown_substitution_refused", out.raised(ValueError))


@harness("C04", "get_odesys.cstr_and_invariants", functions=[ODE + ":get_odesys", "chempy.reactionsystem:ReactionSystem.composition_balance_vectors"], kind="shape-bounded", samples=0, max_paths=300)
def _(v):
    from chempy.kinetics.ode import get_odesys
    from chempy.chemistry import Reaction, Substance
    from chempy.reactionsystem import ReactionSystem
    k = v.real("k", lo=0, hi=9)
    a, b = v.int("nu_A", lo=1, hi=3), v.int("nu_B", lo=1, hi=3)
    subs = [Substance("A", composition={1: 2}), Substance("B", composition={1: 1, 0: 0}), Substance("S", composition={8: 1})]
    rsys = ReactionSystem([Reaction({"A": a}, {"B": b}, k, checks=())], subs, checks=())
    odesys, extra = v.call(get_odesys, rsys, cstr=True, SymbolicSys=FakeSymbolicSys)
    y = dict(zip(odesys.names, odesys.dep))
    p = dict(zip(odesys.param_names, odesys.params))
    v.prove("feed_parameters", set(odesys.param_names) == {"feedratio", "fc_A", "fc_B", "fc_S"} and len(odesys.param_names) == 4)
    # the ORDER of free parameter keys comes from a set in the code (hash dependent): what is fixed is that the names handed to the ODE system are the
    # reported parameter keys followed by the registered unique keys, so that values given by name land on the right symbol
    v.prove("parameter_names_are_the_reported_keys_then_unique_keys", list(odesys.param_names) == list(extra["param_keys"]) + [k for k in extra["unique"] if k not in extra["param_keys"]])
    rate = k * SP.spow(y["A"], a)
    v.prove("cstr_rhs", SP.conj([v.eq(odesys.exprs[0], -a * rate + p["feedratio"] * (p["fc_A"] - y["A"])),
                                 v.eq(odesys.exprs[1], b * rate + p["feedratio"] * (p["fc_B"] - y["B"])),
                                 v.eq(odesys.exprs[2], p["feedratio"] * (p["fc_S"] - y["S"]))]))
    # with a feed nothing is conserved: no vector may be reported as an invariant of this right-hand side
    v.prove("no_linear_invariants_reported_with_a_feed", odesys.linear_invariants is None and odesys.linear_invariant_names is None)
    # without feed: every reported vector w satisfies  w . rhs == rate * (w . net stoichiometry)  -- zero exactly when the reaction conserves that key
    ode0, extra0 = v.call(get_odesys, rsys, SymbolicSys=FakeSymbolicSys)
    y0 = dict(zip(ode0.names, ode0.dep))
    rate0 = k * SP.spow(y0["A"], a)
    inv = ode0.linear_invariants
    v.prove("one_vector_per_composition_key", inv is not None and len(inv) == 3 and all(len(row) == 3 for row in inv) and ode0.linear_invariant_names == ["0", "1", "8"])
    comp = {"A": {1: 2}, "B": {1: 1, 0: 0}, "S": {8: 1}}
    for row, key in zip(inv, (0, 1, 8)):
        lhs = sum(row[j] * ode0.exprs[j] for j in range(3))
        v.prove("vector_of_key_%d_is_conserved_iff_the_reaction_conserves_it" % key, v.eq(lhs, rate0 * (b * comp["B"].get(key, 0) - a * comp["A"].get(key, 0))))


@harness("C04", "get_odesys.time_is_reserved", functions=[ODE + ":get_odesys.<locals>.dydt"], kind="shape-bounded", samples=0)
def _(v):
    from chempy.kinetics.ode import get_odesys
    from chempy.chemistry import Reaction, Substance
    from chempy.reactionsystem import ReactionSystem
    rsys = ReactionSystem([Reaction({"time": 1}, {"B": 1}, v.real("k", lo=0, hi=9), checks=())], [Substance("time"), Substance("B")], checks=())
    out = v.run(get_odesys, rsys, SymbolicSys=FakeSymbolicSys)
    v.prove("reserved_key_refused", out.raised(ValueError))


@harness("C04", "_create_odesys", functions=[ODE + ":_create_odesys"], kind="data")
def _(v):
    """the explicit sympy builder: concrete systems, exact symbolic comparison through sympy (translation validation of three fixed systems; the generated ones are in the bounded stand-in)"""
    import sympy
    from chempy.kinetics.ode import _create_odesys
    from chempy.chemistry import Reaction, Substance
    from chempy.reactionsystem import ReactionSystem
    ok = True
    detail = ""
    for order_sub in (["A", "B", "C"], ["C", "A", "B"]):
        rsys = ReactionSystem([Reaction({"A": 2, "B": 1}, {"C": 1}, "k1"), Reaction({"C": 1}, {"A": 1, "B": 2}, "k2", inact_reac={"A": 1})], [Substance(s) for s in order_sub], checks=())
        odesys, extra = _create_odesys(rsys)
        y = dict(zip(odesys.names, odesys.dep))
        p = dict(zip(odesys.param_names, odesys.params))
        r1 = p["k1"] * y["A"] ** 2 * y["B"]
        r2 = p["k2"] * y["C"]
        want = {"A": -2 * r1 + (1 - 1) * r2, "B": -r1 + 2 * r2, "C": r1 - r2}
        ok = ok and list(odesys.names) == order_sub and set(odesys.param_names) == {"k1", "k2"}
        for n, e in zip(odesys.names, odesys.exprs):
            if sympy.simplify(e - want[n]) != 0:
                ok = False
                detail = "%s: %s vs %s" % (n, e, want[n])
    v.prove("pairs_in_substance_order_with_exact_rhs", ok, detail)


class CapturingSys:
    """assumed contract 5.6, constructor form: SymbolicSys(dep_exprs, indep, params, names=..., param_names=...) keeps the pairs as given"""

    def __init__(self, dep_exprs, indep=None, params=(), names=(), param_names=(), **kwargs):
        pairs = list(dep_exprs)
        self.dep = tuple(d for d, _ in pairs)
        self.exprs = tuple(e for _, e in pairs)
        self.indep = indep
        self.params = tuple(params)
        self.names = tuple(names)
        self.param_names = tuple(param_names)
        self.kwargs = kwargs


@harness("C04", "_create_odesys.symbols_handed_in", functions=[ODE + ":_create_odesys"], kind="shape-bounded", samples=0, max_paths=300)
def _(v):
    """the explicit builder interpreted from its AST with the caller's own symbols: every dependent variable is paired with the rate of its own
    substance, in substance order, whatever the iteration order of a plain-dict substance_symbols"""
    import z3
    from chempy.kinetics.ode import _create_odesys
    lays = layouts()["inactive_mix"]
    rsys, ds, ks = build(v, lays, named=True)
    psyms = OrderedDict((("kk%d" % i, Sym(z3.Real("P_kk%d" % i))) for i in range(len(lays))))
    t = Sym(z3.Real("T_time"))
    v.assume(t != 0)   # a sympy Symbol is truthy ('time_symbol or backend.Symbol("t")'); the Sym standing for it must be too
    for label, order in (("substance_order", SUBST), ("reversed_plain_dict", SUBST[::-1]), ("rotated_plain_dict", SUBST[2:] + SUBST[:2])):
        ssyms = {k: Sym(z3.Real("Y_" + k)) for k in order}
        # precondition of the builder: the time symbol is a different symbol (Sym equality is equality of values, sympy's is structural)
        for other in list(ssyms.values()) + list(psyms.values()):
            v.assume(other != t)
        odesys, extra = v.call(_create_odesys, rsys, substance_symbols=ssyms, parameter_symbols=psyms, backend=FakeBackend(), SymbolicSys=CapturingSys, time_symbol=t)
        want = spec_rhs(ds, [psyms["kk%d" % i] for i in range(len(lays))], ssyms)
        v.prove(label + ".names_in_substance_order", list(odesys.names) == SUBST and list(odesys.param_names) == list(psyms))
        v.prove(label + ".each_dependent_variable_is_its_own_substance", all(d is ssyms[s] for d, s in zip(odesys.dep, SUBST)) and len(odesys.dep) == len(SUBST))
        v.prove(label + ".each_equation_is_the_rate_of_its_own_substance", SP.conj([v.eq(e, want[s]) for e, s in zip(odesys.exprs, SUBST)]))
    wrong = OrderedDict((k, Sym(z3.Real("Y_" + k))) for k in SUBST[::-1])
    for other in wrong.values():
        v.assume(other != t)
    out = v.run(_create_odesys, rsys, substance_symbols=wrong, parameter_symbols=psyms, backend=FakeBackend(), SymbolicSys=CapturingSys, time_symbol=t)
    v.prove("misordered_OrderedDict_refused", out.raised(ValueError))


def _two_key_rate(args, temperature, gasconst, backend=None, **kwargs):
    return args[0] * temperature + gasconst


class _Constants:
    """a namespace of physical constants as get_odesys(constants=...) expects it (attribute access only)"""

    def __init__(self, **kw):
        self.__dict__.update(kw)


@harness("C04", "get_odesys.constants_and_substitutions", functions=[ODE + ":get_odesys", ODE + ":get_odesys.<locals>.dydt", "chempy.kinetics.rates:MassAction.rate_coeff"], kind="shape-bounded", samples=0, max_paths=300)
def _(v):
    """which symbols are free and which are bound when both a constants namespace and explicit substitutions are given: an explicit substitution
    wins over the namespace, a namespace value binds the key it names, everything else stays a parameter; the right-hand side is the kinetic model
    with exactly those bindings"""
    from chempy.kinetics.ode import get_odesys
    from chempy.kinetics.rates import MassAction
    from chempy.chemistry import Reaction, Substance
    from chempy.reactionsystem import ReactionSystem
    MA = MassAction.from_callback(_two_key_rate, argument_names=("a",), parameter_keys=("temperature", "gasconst"))
    a0, a1 = v.real("a0", lo=0, hi=9), v.real("a1", lo=0, hi=9)
    n0, n1 = v.int("nu0", lo=1, hi=3), v.int("nu1", lo=1, hi=3)
    rsys = ReactionSystem([Reaction({"A": n0}, {"B": 1}, MA([a0]), checks=()), Reaction({"B": n1, "C": 1}, {"A": 2}, MA([a1]), checks=())],
                          [Substance(s) for s in "ABC"], checks=())
    cR, sR = v.real("gasconst_in_namespace", lo=1, hi=9), v.real("gasconst_substituted", lo=1, hi=9)

    def want(y, T, R):
        r0 = (a0 * T + R) * SP.spow(y["A"], n0)
        r1 = (a1 * T + R) * SP.spow(y["B"], n1) * y["C"]
        return {"A": -n0 * r0 + 2 * r1, "B": r0 - n1 * r1, "C": -r1}

    def check(label, odesys, pnames, R):
        y = dict(zip(odesys.names, odesys.dep))
        p = dict(zip(odesys.param_names, odesys.params))
        v.prove(label + ".free_parameters", list(odesys.param_names) == pnames)
        if list(odesys.param_names) == pnames:
            w = want(y, p["temperature"], p["gasconst"] if R is None else R)
            v.prove(label + ".rhs_with_exactly_these_bindings", SP.conj([v.eq(e, w[s]) for e, s in zip(odesys.exprs, "ABC")]))

    o, _x = v.call(get_odesys, rsys, SymbolicSys=FakeSymbolicSys)
    check("nothing_bound", o, list(o.param_names), None)
    v.prove("nothing_bound.both_keys_free", set(o.param_names) == {"temperature", "gasconst"})
    o, _x = v.call(get_odesys, rsys, constants=_Constants(gasconst=cR), SymbolicSys=FakeSymbolicSys)
    check("namespace_binds_its_key", o, ["temperature"], cR)
    o, _x = v.call(get_odesys, rsys, substitutions={"gasconst": sR}, SymbolicSys=FakeSymbolicSys)
    check("substitution_binds_its_key", o, ["temperature"], sR)
    o, _x = v.call(get_odesys, rsys, constants=_Constants(gasconst=cR), substitutions={"gasconst": sR}, SymbolicSys=FakeSymbolicSys)
    check("explicit_substitution_wins_over_namespace", o, ["temperature"], sR)
    o, _x = v.call(get_odesys, rsys, constants=_Constants(gasconst=cR, unrelated=1.0), substitutions={"temperature": sR}, SymbolicSys=FakeSymbolicSys)
    y = dict(zip(o.names, o.dep))
    w = want(y, sR, cR)
    v.prove("both_bound.no_free_parameters", list(o.param_names) == [])
    v.prove("both_bound.rhs", SP.conj([v.eq(e, w[s]) for e, s in zip(o.exprs, "ABC")]))


@harness("C04", "get_odesys.unit_registry.named_and_numeric_constants", functions=[ODE + ":get_odesys", ODE + ":get_odesys.<locals>.dydt", ODE + ":get_odesys.<locals>.reaction_rates",
                                                                                  "chempy.util._expr:Expr.dedimensionalisation"], kind="shape-bounded", div_mode="assume", samples=0, max_paths=400)
def _(v):
    """with a unit registry every reaction keeps ITS OWN rate expression (named constants stay parameters, numeric ones are expressed in registry
    units); generic registry of symbolic scale (abstraction 5.1)"""
    from chempy.kinetics.ode import get_odesys
    from chempy.kinetics.rates import MassAction
    from chempy.chemistry import Reaction, Substance
    from chempy.reactionsystem import ReactionSystem
    from chempy import units as CU
    from pyvc.qmodel import si_value, std_table, Quantity
    from contracts.C10 import _registry, _unit_in_registry
    t = std_table()
    reg = _registry(v, t)
    v.contract(CU.default_unit_in_registry, "default_unit_in_registry", None, lambda v_, value, registry: _unit_in_registry(t, registry, value) if isinstance(value, Quantity) else 1)
    v.contract(CU.unitless_in_registry, "unitless_in_registry", None,
               lambda v_, value, registry: v_.interp.call(CU.to_unitless, (value, _unit_in_registry(t, registry, value))) if isinstance(value, Quantity) else value)
    ku = t.generic("ku", (0, 0, -1, 0, 0, 0, 0))
    k2, k3 = v.real("k2", lo=1e-9, hi=1e9), v.real("k3", lo=1e-9, hi=1e9)
    rsys = ReactionSystem([Reaction({"A": 1}, {"B": 1}, "k1", checks=()), Reaction({"B": 1}, {"C": 1}, MassAction([k2 * ku]), checks=()),
                           Reaction({"C": 1}, {"D": 1}, "k4", checks=()), Reaction({"D": 1}, {"A": 1}, MassAction([k3 * ku]), checks=())],
                          [Substance(s) for s in "ABCD"], checks=())
    reg_t = si_value(reg["time"])
    bound = v.real("k4_bound_by_substitution", lo=0, hi=9)
    for label, kw, names in (("names_free", dict(include_params=False), ["k1", "k4"]),
                             ("one_name_bound", dict(include_params=False, substitutions={"k4": bound}), ["k1"])):
        odesys, extra = v.call(get_odesys, rsys, unit_registry=reg, SymbolicSys=FakeSymbolicSys, **kw)
        y = dict(zip(odesys.names, odesys.dep))
        p = dict(zip(odesys.param_names, odesys.params))
        v.prove(label + ".named_constants_are_the_parameters", list(odesys.param_names) == names)
        if list(odesys.param_names) != names:
            continue
        p.setdefault("k4", bound)
        r = [p["k1"] * y["A"], None, p["k4"] * y["C"], None]
        want = {"A": (-r[0], +1, k3, "D"), "B": (r[0], -1, k2, "B"), "C": (-r[2], +1, k2, "B"), "D": (r[2], -1, k3, "D")}
        for e, s in zip(odesys.exprs, "ABCD"):
            named, sign, k, src = want[s]
            # numeric constants: k [1/s] = k_reg [1/registry time]  <=>  k_reg = k * si(ku) * si(registry time)
            v.prove_identity(label + ".rhs_" + s, e, named + sign * k * si_value(ku) * reg_t * y[src])
        per_rxn = odesys.cb_exprs
        v.prove(label + ".one_rate_per_reaction", len(per_rxn) == 4)
        if len(per_rxn) == 4:
            v.prove_identity(label + ".rate_0", per_rxn[0], r[0])
            v.prove_identity(label + ".rate_1", per_rxn[1], k2 * si_value(ku) * reg_t * y["B"])
            v.prove_identity(label + ".rate_2", per_rxn[2], r[2])
            v.prove_identity(label + ".rate_3", per_rxn[3], k3 * si_value(ku) * reg_t * y["D"])


@harness("C04", "get_odesys.names_are_substance_keys", functions=[ODE + ":get_odesys", ODE + ":get_odesys.<locals>.dydt"], kind="shape-bounded", samples=0, max_paths=300)
def _(v):
    """'dependent-variable names matching substance KEYS': a system whose keys differ from the Substance.name attributes (here: the names are a
    permutation of the keys, the worst case because nothing raises)"""
    from chempy.kinetics.ode import get_odesys
    from chempy.chemistry import Reaction, Substance
    from chempy.reactionsystem import ReactionSystem
    k0, k1 = v.real("k0", lo=0, hi=9), v.real("k1", lo=0, hi=9)
    n = v.int("nu", lo=1, hi=3)
    subs = OrderedDict([("A", Substance("B")), ("B", Substance("C")), ("C", Substance("A"))])
    rsys = ReactionSystem([Reaction({"A": n}, {"B": 1}, k0, checks=()), Reaction({"B": 1, "C": 1}, {"A": 2}, k1, checks=())], subs, checks=())
    odesys, extra = v.call(get_odesys, rsys, SymbolicSys=FakeSymbolicSys)
    v.prove("names_are_the_keys_in_substance_order", list(odesys.names) == ["A", "B", "C"])
    y = dict(zip(["A", "B", "C"], odesys.dep))
    r0 = k0 * SP.spow(y["A"], n)
    r1 = k1 * y["B"] * y["C"]
    for e, (s, want) in zip(odesys.exprs, (("A", -n * r0 + 2 * r1), ("B", r0 - r1), ("C", -r1))):
        v.prove("equation_%d_is_that_of_key_%s" % (list("ABC").index(s), s), v.eq(e, want))


@harness("C04", "get_odesys.rebuilt_after_changing_a_rate_constant", functions=[ODE + ":get_odesys", "chempy.chemistry:Reaction.rate_expr"], kind="shape-bounded", samples=0, max_paths=300)
def _(v):
    """the builders read the reaction system as it IS when they are called: a second build after re-assigning a rate constant (number or name)
    uses the new one"""
    from chempy.kinetics.ode import get_odesys, _create_odesys
    import z3
    lays = layouts()["two_shared"]
    rsys, ds, ks = build(v, lays)
    v.call(get_odesys, rsys, SymbolicSys=FakeSymbolicSys)
    knew = v.real("k_new", lo=0, hi=9)
    rsys.rxns[0].param = knew
    odesys, extra = v.call(get_odesys, rsys, SymbolicSys=FakeSymbolicSys)
    conc = dict(zip(odesys.names, odesys.dep))
    want = spec_rhs(ds, [knew, ks[1]], conc)
    v.prove("second_build_uses_the_new_number", SP.conj([v.eq(e, want[s]) for e, s in zip(odesys.exprs, SUBST)]))
    rsys2, ds2, ks2 = build(v, lays, named=True)
    v.call(get_odesys, rsys2, include_params=False, SymbolicSys=FakeSymbolicSys)
    rsys2.rxns[1].param = "renamed"
    o2, x2 = v.call(get_odesys, rsys2, include_params=False, SymbolicSys=FakeSymbolicSys)
    v.prove("second_build_uses_the_new_name", list(o2.param_names) == ["kk0", "renamed"])
    psyms = OrderedDict((k, Sym(z3.Real("P_" + k))) for k in ("kk0", "renamed"))
    ssyms = OrderedDict((k, Sym(z3.Real("Y_" + k))) for k in SUBST)
    t = Sym(z3.Real("T_time"))
    v.assume(t != 0)
    for other in list(ssyms.values()) + list(psyms.values()):
        v.assume(other != t)
    o3, x3 = v.call(_create_odesys, rsys2, substance_symbols=ssyms, parameter_symbols=psyms, backend=FakeBackend(), SymbolicSys=CapturingSys, time_symbol=t)
    want3 = spec_rhs(ds2, [psyms["kk0"], psyms["renamed"]], ssyms)
    v.prove("alternative_builder_uses_the_new_name", SP.conj([v.eq(e, want3[s]) for e, s in zip(o3.exprs, SUBST)]))


class ExpBackend(FakeBackend):
    """odesys.be for rate expressions that need exp: the real function of assumed contract 5.3"""

    @staticmethod
    def exp(x):
        from pyvc.stubs import sym_exp
        return sym_exp(x)


class ExpSys(FakeSymbolicSys):
    def __init__(self):
        super().__init__()

    @classmethod
    def from_callback(cls, cb, **kw):
        self = super().from_callback(lambda t, y, p, be: cb(t, y, p, ExpBackend()), **kw)
        self.be = ExpBackend()
        return self


@harness("C04", "get_odesys.active_substitution", functions=[ODE + ":get_odesys", ODE + ":get_odesys.<locals>.dydt", ODE + ":get_odesys.<locals>._reg_unique", "chempy.kinetics.rates:Arrhenius.__call__",
                                                             "chempy.kinetics.rates:RampedTemp.__call__"], kind="shape-bounded", div_mode="assume", samples=0, max_paths=400)
def _(v):
    """a variable replaced by an EXPRESSION (temperature ramped linearly in time): parameters inlined -> no free symbol, the rate constant is
    A*exp(-E/(T0 + r*t)); parameters kept free -> the expression's own arguments become parameters, and binding them reproduces the inlined rhs"""
    from chempy.kinetics.ode import get_odesys
    from chempy.kinetics.rates import MassAction, Arrhenius, RampedTemp
    from chempy.chemistry import Reaction, Substance
    from chempy.reactionsystem import ReactionSystem
    from pyvc.stubs import sym_exp
    A0, E, T0, r = v.real("A0", lo=0.1, hi=9), v.real("E", lo=1, hi=900), v.real("T0", lo=250, hi=350), v.real("r", lo=0.1, hi=2)
    n = v.int("nu", lo=1, hi=3)
    rsys = ReactionSystem([Reaction({"A": n}, {"B": 1}, MassAction(Arrhenius([A0, E], ("Aa", "Ea"))), checks=())], [Substance("B"), Substance("A")], checks=())
    sub = {"temperature": RampedTemp([T0, r], ("T0", "dTdt"))}
    o, x = v.call(get_odesys, rsys, include_params=True, substitutions=sub, SymbolicSys=ExpSys)
    y = dict(zip(o.names, o.dep))
    v.prove("inlined.no_free_parameters", list(o.param_names) == [])
    v.assume(T0 + r * o.indep > 1)
    k_t = A0 * sym_exp(-E / (T0 + r * o.indep))
    v.prove("inlined.rhs", SP.conj([v.eq(o.exprs[0], k_t * SP.spow(y["A"], n)), v.eq(o.exprs[1], -n * k_t * SP.spow(y["A"], n))]))
    o2, x2 = v.call(get_odesys, rsys, include_params=False, substitutions=sub, SymbolicSys=ExpSys)
    y2 = dict(zip(o2.names, o2.dep))
    p2 = dict(zip(o2.param_names, o2.params))
    v.prove("free.parameters_are_the_arguments_of_both_expressions", set(o2.param_names) == {"T0", "dTdt", "Aa", "Ea"} and len(o2.param_names) == 4)
    v.prove("free.registered_values", SP.conj([x2["unique"]["T0"] == T0, x2["unique"]["dTdt"] == r, x2["unique"]["Aa"] == A0, x2["unique"]["Ea"] == E]))
    if set(o2.param_names) == {"T0", "dTdt", "Aa", "Ea"}:
        v.assume(p2["T0"] + p2["dTdt"] * o2.indep > 1)
        kf = p2["Aa"] * sym_exp(-p2["Ea"] / (p2["T0"] + p2["dTdt"] * o2.indep))
        v.prove("free.rhs_in_the_free_symbols", SP.conj([v.eq(o2.exprs[0], kf * SP.spow(y2["A"], n)), v.eq(o2.exprs[1], -n * kf * SP.spow(y2["A"], n))]))


@harness("C04", "get_odesys.unit_registry.second_order", functions=[ODE + ":get_odesys", ODE + ":get_odesys.<locals>.dydt", "chempy.util._expr:Expr.dedimensionalisation", "chempy.units:get_derived_unit"],
         kind="shape-bounded", div_mode="assume", samples=0, max_paths=400)
def _(v):
    """with a unit registry and a second-order step the concentration unit of the registry enters: the numeric constant k [1/(conc*time)] becomes
    k * si(ku) * si(registry conc) * si(registry time) in registry units (generic registry and generic unit of the constant)"""
    from chempy.kinetics.ode import get_odesys
    from chempy.kinetics.rates import MassAction
    from chempy.chemistry import Reaction, Substance
    from chempy.reactionsystem import ReactionSystem
    from chempy import units as CU
    from pyvc.qmodel import si_value, std_table, Quantity
    from contracts.C10 import _registry, _unit_in_registry
    t = std_table()
    reg = _registry(v, t)
    v.contract(CU.default_unit_in_registry, "default_unit_in_registry", None, lambda v_, value, registry: _unit_in_registry(t, registry, value) if isinstance(value, Quantity) else 1)
    v.contract(CU.unitless_in_registry, "unitless_in_registry", None,
               lambda v_, value, registry: v_.interp.call(CU.to_unitless, (value, _unit_in_registry(t, registry, value))) if isinstance(value, Quantity) else value)
    ku2 = t.generic("ku2", (3, 0, -1, 0, 0, 0, -1))       # volume / (amount * time)
    ku1 = t.generic("ku1", (0, 0, -1, 0, 0, 0, 0))
    k2, k1 = v.real("k2", lo=1e-9, hi=1e9), v.real("k1", lo=1e-9, hi=1e9)
    rsys = ReactionSystem([Reaction({"A": 1, "B": 1}, {"C": 1}, MassAction([k2 * ku2]), checks=()), Reaction({"C": 1}, {"A": 2}, MassAction([k1 * ku1]), checks=())],
                          [Substance(s) for s in "CAB"], checks=())
    odesys, extra = v.call(get_odesys, rsys, unit_registry=reg, SymbolicSys=FakeSymbolicSys)
    y = dict(zip(odesys.names, odesys.dep))
    reg_t, reg_c = si_value(reg["time"]), si_value(reg["amount"] / reg["length"] ** 3)
    r2 = k2 * si_value(ku2) * reg_c * reg_t * y["A"] * y["B"]
    r1 = k1 * si_value(ku1) * reg_t * y["C"]
    v.prove("names", list(odesys.names) == ["C", "A", "B"] and list(odesys.param_names) == [])
    for e, want, s in zip(odesys.exprs, (r2 - r1, -r2 + 2 * r1, -r2), "CAB"):
        v.prove_identity("rhs_" + s, e, want)


@harness("C04", "_create_odesys.names_are_substance_keys", functions=[ODE + ":_create_odesys"], kind="shape-bounded", samples=0, max_paths=300)
def _(v):
    """the alternative builder as well: dependent-variable names are the substance KEYS (keys that differ from the Substance.name attributes)"""
    import z3
    from chempy.kinetics.ode import _create_odesys
    from chempy.chemistry import Reaction, Substance
    from chempy.reactionsystem import ReactionSystem
    subs = OrderedDict([("NO2", Substance("nitrogen dioxide")), ("N2O4", Substance("dinitrogen tetroxide"))])
    n = v.int("nu", lo=1, hi=3)
    rsys = ReactionSystem([Reaction({"NO2": n}, {"N2O4": 1}, "k", checks=())], subs, checks=())
    psyms = OrderedDict([("k", Sym(z3.Real("P_k")))])
    ssyms = OrderedDict((k, Sym(z3.Real("Y_" + k))) for k in subs)
    t = Sym(z3.Real("T_time"))
    v.assume(t != 0)
    for other in list(ssyms.values()) + list(psyms.values()):
        v.assume(other != t)
    o, x = v.call(_create_odesys, rsys, substance_symbols=ssyms, parameter_symbols=psyms, backend=FakeBackend(), SymbolicSys=CapturingSys, time_symbol=t)
    v.prove("names_are_the_keys", list(o.names) == ["NO2", "N2O4"])
    r = psyms["k"] * SP.spow(ssyms["NO2"], n)
    v.prove("rhs", SP.conj([v.eq(o.exprs[0], -n * r), v.eq(o.exprs[1], r)]))


@harness("C04", "get_odesys.nested_unique_keys", functions=[ODE + ":get_odesys", ODE + ":get_odesys.<locals>._reg_unique"], kind="shape-bounded", div_mode="assume", samples=0, max_paths=400)
def _(v):
    """'keeping rate constants as free parameters': EVERY unique key of a rate expression becomes a parameter, also the key of an expression nested
    inside another one that has a key of its own; binding them reproduces the inlined right-hand side"""
    from chempy.kinetics.ode import get_odesys
    from chempy.kinetics.rates import MassAction, Arrhenius
    from chempy.util._expr import Expr
    from chempy.chemistry import Reaction, Substance
    from chempy.reactionsystem import ReactionSystem
    from pyvc.stubs import sym_exp

    class Scaled(Expr):
        """a*2: stands for any user-defined inner expression (e.g. an activation energy over R computed from something else)"""
        argument_names = ("a",)

        def __call__(self, variables, backend=None, **kwargs):
            (a,) = self.all_args(variables, backend=backend, **kwargs)
            return a * 2
    A0, E = v.real("A0", lo=0.1, hi=9), v.real("E", lo=1, hi=900)
    T = v.real("T", lo=250, hi=350)
    rsys = ReactionSystem([Reaction({"A": 1}, {"B": 1}, MassAction(Arrhenius([A0, Scaled([E], unique_keys=("E_inner",))], unique_keys=("A_outer",))), checks=())],
                          [Substance("A"), Substance("B")], checks=())
    o, x = v.call(get_odesys, rsys, include_params=False, SymbolicSys=ExpSys)
    v.prove("both_keys_are_parameters", set(o.param_names) == {"temperature", "A_outer", "E_inner"} and len(o.param_names) == 3, detail=repr(o.param_names))
    if set(o.param_names) == {"temperature", "A_outer", "E_inner"}:
        p = dict(zip(o.param_names, o.params))
        y = dict(zip(o.names, o.dep))
        v.assume(p["temperature"] > 1)
        k = p["A_outer"] * sym_exp(-(p["E_inner"] * 2) / p["temperature"])
        v.prove("rhs_in_the_free_symbols", SP.conj([v.eq(o.exprs[0], -k * y["A"]), v.eq(o.exprs[1], k * y["A"])]))
        v.prove("registered_values", SP.conj([x["unique"]["A_outer"] == A0, x["unique"]["E_inner"] == E]))


@harness("C04", "name_clashes_are_refused", functions=[ODE + ":_create_odesys", ODE + ":get_odesys"], kind="data")
def _(v):
    """'dependent-variable and parameter names matching substance keys and parameter keys': a system whose named rate constant has the name of a
    substance (or of the time variable) cannot be represented -- one symbol would stand for both -- and is refused by both builders, never
    answered with a right-hand side in which the constant IS the concentration (-A**2 for 'A -> B; k named A')"""
    from chempy.chemistry import Substance
    from chempy.reactionsystem import ReactionSystem
    from chempy.kinetics.ode import _create_odesys, get_odesys
    answered = []
    for text in ("A -> B; 'A'", "A -> B; 'B'", "A -> B; 'k1'\nB -> C; 'A'"):
        rs = ReactionSystem.from_string(text, substance_factory=Substance)
        for label, build in (("_create_odesys", lambda: _create_odesys(rs)), ("get_odesys", lambda: get_odesys(rs, include_params=False))):
            try:
                o, _e = build()
                answered.append((text, label, str(o.exprs)))
            except ValueError:
                pass
            except Exception as ex:
                answered.append((text, label, repr(ex)[:80]))
    v.prove("constant_named_like_a_substance", not answered, detail=repr(answered[:3]))
    # the same through the DEFAULT configuration of get_odesys (constants inlined): a unique key that is also a substance key (or 'time') would be
    # looked up among the variables and come back as the concentration (the time); either the call is refused or the stored value 3.0 is used
    from chempy.chemistry import Reaction
    from chempy.kinetics.rates import MassAction
    inlined = []
    for clash in ("B", "A", "time"):
        rs2 = ReactionSystem([Reaction({"A": 1}, {"B": 1}, MassAction([3.0], unique_keys=(clash,)))], "A B", substance_factory=Substance)
        try:
            o, _e = get_odesys(rs2)
            yA = o.dep[0]
            if [e.expand() for e in o.exprs] != [(-3.0 * yA).expand(), (3.0 * yA).expand()]:
                inlined.append((clash, str(o.exprs)))
        except (ValueError, KeyError):
            pass
        except Exception as ex:
            inlined.append((clash, repr(ex)[:80]))
    for text in ("A -> B; 'A'", "A -> B; 'B'"):
        try:
            o, _e = get_odesys(ReactionSystem.from_string(text, substance_factory=Substance))
            inlined.append((text, str(o.exprs)))
        except (ValueError, KeyError):
            pass
        except Exception as ex:
            inlined.append((text, repr(ex)[:80]))
    v.prove("unique_key_named_like_a_substance_or_time_with_constants_inlined", not inlined, detail=repr(inlined[:3]))
    rs = ReactionSystem.from_string("A -> B; 't'", substance_factory=Substance)
    try:
        o, _e = _create_odesys(rs)
        ok, det = False, str(o.exprs)
    except ValueError:
        ok, det = True, ""
    v.prove("constant_named_like_the_time_variable", ok, detail=det)
    rs = ReactionSystem.from_string("A -> B; 'k'\nB -> C; 'k2'", substance_factory=Substance)
    o, _e = _create_odesys(rs)
    v.prove("distinct_names_are_accepted", list(o.names) == ["A", "B", "C"] and list(o.param_names) == ["k", "k2"])


@harness("C04", "unique_keys_behind_plain_arguments", functions=[ODE + ":get_odesys", ODE + ":get_odesys.<locals>._reg_unique"], kind="data")
def _(v):
    """'keeping rate constants as free parameters … changes only which symbols are free': every unique key of every nested rate expression is
    registered, wherever it sits in the argument list -- also behind plain numbers (the bounds of a piecewise expression come before its pieces).
    With include_params=False all four keys are parameters, their defaults are reported, and binding them gives the kinetic model's value"""
    from chempy.chemistry import Reaction
    from chempy.reactionsystem import ReactionSystem
    from chempy.kinetics.ode import get_odesys
    from chempy.kinetics.rates import MassAction
    from chempy.util._expr import create_Piecewise, create_Poly
    TPoly, TPiecewise = create_Poly("temperature"), create_Piecewise("temperature")
    low, high = TPoly([1.0, 0.01], unique_keys=("a0", "a1")), TPoly([2.0, 0.02], unique_keys=("b0", "b1"))
    rsys = ReactionSystem([Reaction({"A": 1}, {"B": 1}, MassAction(TPiecewise([0, low, 300, high, 1000])))], "A B")
    try:
        odesys, extra = get_odesys(rsys, include_params=False)
        names = list(odesys.param_names)
        v.prove("all_nested_keys_are_parameters", set(names) == {"temperature", "a0", "a1", "b0", "b1"} and dict(extra["unique"]) == dict(a0=1.0, a1=0.01, b0=2.0, b1=0.02),
                detail="%r %r" % (names, dict(extra["unique"])))
        bound = dict(a0=3.0, a1=0.03, b0=5.0, b1=0.05)
        bad = []
        for T, k in ((350.0, 5.0 + 0.05 * 350.0), (200.0, 3.0 + 0.03 * 200.0)):
            p = dict(bound, temperature=T)
            f = [float(x) for x in odesys.f_cb(0.0, [2.0, 0.0], [p[n] for n in names])]
            if not all(abs(x - y) <= 1e-12 * abs(y) for x, y in zip(f, [-k * 2.0, k * 2.0])):
                bad.append((T, f))
        v.prove("bound_keys_give_the_model_value", not bad, detail=repr(bad))
    except Exception as ex:
        v.prove("all_nested_keys_are_parameters", False, detail=repr(ex)[:300])
