"""C20  Printed numbers and parameters denote the value they were given."""
import re

from pyvc.api import harness
from pyvc import spec as SP
from pyvc.sym import Sym

META = {
    "explanation": "the power-of-ten renderers are proved on symbolic exponent strings (significand omitted iff it is '1'/'1.0', exponent printed as str(int(.)) with sign kept and leading zeros dropped, format markup) and checked exhaustively for every exponent string %g can produce; _number_to_X is proved to split the %g text once at 'e', hand both halves to the format's renderer and append the unit text after the separator, and to route the uncertainty case to _float_str_w_uncert; roman() is verified exhaustively on its whole domain 1..3999 against an independent numeral reader; the reaction printer shows magnitude_fmt(magnitude) + ' ' + unit_fmt(dimensionality)",
    "trusted_base": ["assumed contract 5.7: '%.Ng' % x is the C99 rounding of x to N significant digits (sampled over +-300 decades in the bounded stand-in)", "z3/cvc5 string theories"],
    "not_decided": ["_float_str_w_uncert numerics (floor(log10), round, %f on IEEE doubles): bounded stand-in", "%g itself"],
    "assumptions": [],
}
NUM = "chempy.printing.numbers"


@harness("C20", "roman.exhaustive", functions=[NUM + ":roman"], kind="data")
def _(v):
    from chempy.printing.numbers import roman
    val = {"I": 1, "V": 5, "X": 10, "L": 50, "C": 100, "D": 500, "M": 1000}

    def read(s):   # subtractive notation reader, independent of the code
        tot = 0
        for i, ch in enumerate(s):
            x = val[ch]
            if i + 1 < len(s) and val[s[i + 1]] > x:
                tot -= x
            else:
                tot += x
        return tot
    canonical = re.compile(r"M{0,3}(CM|CD|D?C{0,3})(XC|XL|L?X{0,3})(IX|IV|V?I{0,3})")
    bad = [n for n in range(1, 4000) if read(roman(n)) != n or not canonical.fullmatch(roman(n))]
    v.prove("denotes_its_integer_1_to_3999", not bad, "first failures %s" % bad[:5])
    v.prove("distinct", len({roman(n) for n in range(1, 4000)}) == 3999)


def _pow10(fmt_name, significand):
    @harness("C20", "%s.sig_%s" % (fmt_name, significand.replace(".", "p").replace("-", "m")), functions=[NUM + ":" + fmt_name], kind="shape-bounded", samples=30)
    def _(v):
        import z3
        from chempy.printing import numbers
        fn = getattr(numbers, fmt_name)
        mant = v.str("mantissa", maxlen=4, alphabet="+-0123456789")
        if v.symbolic:
            v.assume(Sym(z3.InRe(mant.e, z3.Concat(z3.Option(z3.Union(z3.Re(z3.StringVal("+")), z3.Re(z3.StringVal("-")))), z3.Plus(z3.Range("0", "9"))))))
        else:
            if not re.fullmatch(r"[+-]?\d+", mant):
                mant = "+07"
        r = v.call(fn, significand, mant)
        omit = significand in ("1", "1.0")
        if v.symbolic:
            neg = Sym(z3.PrefixOf(z3.StringVal("-"), mant.e))
            body = z3.If(z3.Or(z3.PrefixOf(z3.StringVal("-"), mant.e), z3.PrefixOf(z3.StringVal("+"), mant.e)), z3.SubString(mant.e, 1, z3.Length(mant.e) - 1), mant.e)
            val = z3.StrToInt(body)
            expo = Sym(z3.If(z3.And(neg.e if isinstance(neg, Sym) else z3.BoolVal(neg), val != 0), z3.Concat(z3.StringVal("-"), z3.IntToStr(val)), z3.IntToStr(val)))
        else:
            expo = str(int(mant))
        if fmt_name == "_latex_pow_10":
            exp_text = ("" if omit else significand + r"\cdot ") + "10^{"
            v.prove("layout", r == exp_text + expo + "}" if not v.symbolic else r == Sym(z3.Concat(z3.StringVal(exp_text), expo.e, z3.StringVal("}"))))
        else:
            exp_text = ("" if omit else significand + "&sdot;") + "10<sup>"
            v.prove("layout", r == exp_text + expo + "</sup>" if not v.symbolic else r == Sym(z3.Concat(z3.StringVal(exp_text), expo.e, z3.StringVal("</sup>"))))
    return _


for _f in ("_latex_pow_10", "_html_pow_10"):
    for _s in ("1", "1.0", "3.1416", "-2.5", "10"):
        _pow10(_f, _s)


@harness("C20", "pow10.exhaustive_exponents", functions=[NUM + ":_latex_pow_10", NUM + ":_unicode_pow_10", NUM + ":_html_pow_10"], kind="data")
def _(v):
    from chempy.printing import numbers as N
    sup = {"0": "⁰", "1": "¹", "2": "²", "3": "³", "4": "⁴", "5": "⁵", "6": "⁶", "7": "⁷", "8": "⁸", "9": "⁹", "-": "⁻", "+": "⁺"}
    unsup = {b: a for a, b in sup.items()}
    bad = []
    n = 0
    for e in range(-330, 331):
        for mant in {"%+03d" % e, "%d" % e, "%+d" % e}:
            for sig in ("1", "1.0", "2.5", "-1", "-1.0", "9.9999", "1.00"):
                n += 1
                omit = sig in ("1", "1.0")
                lat = N._latex_pow_10(sig, mant)
                htm = N._html_pow_10(sig, mant)
                uni = N._unicode_pow_10(sig, mant)
                ok = lat == ("" if omit else sig + r"\cdot ") + "10^{%d}" % e
                ok = ok and htm == ("" if omit else sig + "&sdot;") + "10<sup>%d</sup>" % e
                head = "" if omit else sig + "·"
                ok = ok and uni.startswith(head + "10") and int("".join(unsup[c] for c in uni[len(head) + 2:])) == e
                if not ok:
                    bad.append((sig, mant, lat, htm, uni))
    v.prove("all_exponents_and_significands", not bad, "first %s" % bad[:2])
    v.prove("count", n >= 661 * 7)
    from chempy.util.parsing import _unicode_sup
    v.prove("superscript_table_is_unicode", all(_unicode_sup[k] == sup[k] for k in "0123456789-+"))


class _U:
    """a unit-like object that is not the integer one"""
    def __init__(self, name):
        self.name = name


@harness("C20", "_number_to_X.plumbing", functions=[NUM + ":_number_to_X"], kind="shape-bounded", samples=0)
def _(v):
    import z3
    from chempy.printing import numbers as N
    x = v.real("x", lo=-1e6, hi=1e6)
    prec = v.choice("precision", [None, 3, 7])
    calls = []

    def render(sig, mant):
        return Sym(z3.Concat(z3.StringVal("<"), sig.e if isinstance(sig, Sym) else z3.StringVal(sig), z3.StringVal("|"), mant.e if isinstance(mant, Sym) else z3.StringVal(mant), z3.StringVal(">")))

    def pow10(sig, mant):
        calls.append((sig, mant))
        return render(sig, mant)
    r = v.call(N._number_to_X, x, None, 1, prec, lambda u: "UNIT", pow10, " ")
    F = z3.Function("fmt_g", z3.IntSort(), z3.RealSort(), z3.StringSort())
    flt = F(z3.IntVal(5 if prec is None else prec), x.e)
    has_e = z3.Contains(flt, z3.StringVal("e"))
    if calls:
        sig, mant = calls[0]
        v.prove("exponent_form_split_once_at_e", SP.conj([Sym(has_e), Sym(z3.Concat(sig.e, z3.StringVal("e"), mant.e)) == Sym(flt),
                                                        SP.neg(Sym(z3.Contains(sig.e, z3.StringVal("e")))), r == render(sig, mant)]))
        v.prove("renderer_called_once", len(calls) == 1)
    else:
        v.prove("plain_form_returned_verbatim", SP.conj([SP.neg(Sym(has_e)), r == Sym(flt)]))
    # (the default precision 5 is part of `flt` above: with prec=None the text must be that of "%.5g")


def to_s(x):
    import z3
    return x.e if isinstance(x, Sym) else z3.StringVal(x)


@harness("C20", "_number_to_X.unit_and_uncertainty", functions=[NUM + ":_number_to_X"], kind="shape-bounded", samples=0)
def _(v):
    import z3
    from chempy.printing import numbers as N
    from chempy import units as U
    x, dx = v.real("x", lo=-1e6, hi=1e6), v.real("dx", lo=1e-9, hi=10)
    unit = _U("furlong")
    mag = v.real("mag")
    umag = v.real("umag")
    seen = {}

    def tu(v_, value, new_unit=None):
        seen.setdefault("to_unitless", []).append((value, new_unit))
        return mag if value is x else umag
    v.contract(U.to_unitless, "to_unitless", None, tu)

    def fsu(v_, m, u, p=2):
        out = z3.Function("uncert_str", z3.RealSort(), z3.RealSort(), z3.IntSort(), z3.StringSort())(m.e, u.e, z3.IntVal(p))
        ne = z3.Star(z3.Union(z3.Range("0", "9"), z3.Re(z3.StringVal(".")), z3.Re(z3.StringVal("(")), z3.Re(z3.StringVal(")")), z3.Re(z3.StringVal("-"))))
        v_.path.assume(z3.InRe(out, z3.Concat(ne, z3.Option(z3.Concat(z3.Re(z3.StringVal("e")), ne)))))   # its own layouts: nom(unc) or nom(unc)e<exp>
        return Sym(out)
    v.contract(N._float_str_w_uncert, "_float_str_w_uncert", None, fsu)
    calls = []

    def render(sig, mant):
        return Sym(z3.Function("render", z3.StringSort(), z3.StringSort(), z3.StringSort())(to_s(sig), to_s(mant)))

    def pow10(sig, mant):
        calls.append((sig, mant))
        return render(sig, mant)
    r = v.call(N._number_to_X, x, dx, unit, None, lambda u: "[" + u.name + "]", pow10, "~")
    US = z3.Function("uncert_str", z3.RealSort(), z3.RealSort(), z3.IntSort(), z3.StringSort())
    flt = US(mag.e, umag.e, z3.IntVal(2))
    has_e = z3.Contains(flt, z3.StringVal("e"))
    v.prove("magnitude_and_uncertainty_converted_to_the_shown_unit", [a for a, b in seen["to_unitless"]] == [x, dx] and all(b is unit for a, b in seen["to_unitless"]))
    # both directions: an exponent form is split exactly once at its 'e' and handed to the power-of-ten renderer; a plain form is shown verbatim;
    # in both cases the unit follows the separator
    if calls:
        sig, mant = calls[0]
        v.prove("uncertainty_with_exponent_is_split_once_and_rendered", SP.conj([Sym(has_e), Sym(z3.Concat(to_s(sig), z3.StringVal("e"), to_s(mant))) == Sym(flt),
                                                                                 SP.neg(Sym(z3.Contains(to_s(sig), z3.StringVal("e")))), len(calls) == 1,
                                                                                 r == Sym(z3.Concat(render(sig, mant).e, z3.StringVal("~[furlong]")))]))
    else:
        v.prove("plain_uncertainty_form_is_shown_verbatim_with_the_unit", SP.conj([SP.neg(Sym(has_e)), r == Sym(z3.Concat(flt, z3.StringVal("~[furlong]")))]))


@harness("C20", "reaction_param_str", functions=["chempy.printing.string:StrPrinter._Reaction_param_str", "chempy.printing.string:StrPrinter._print_Reaction"], kind="shape-bounded", samples=0)
def _(v):
    import z3
    from chempy.printing.string import StrPrinter
    from chempy.chemistry import Reaction

    class _Param:
        def __init__(self, magnitude, dimensionality):
            self.magnitude, self.dimensionality = magnitude, dimensionality
    m = v.real("magnitude", lo=1e-12, hi=1e12)
    rxn = Reaction({"A": 1}, {"B": 1}, _Param(m, "M/s"), checks=())
    p = StrPrinter()
    r = v.call(p._Reaction_param_str, rxn)
    F = z3.Function("fmt_g", z3.IntSort(), z3.RealSort(), z3.StringSort())
    v.prove("magnitude_fmt_then_space_then_unit_fmt", r == Sym(z3.Concat(F(z3.IntVal(3), m.e), z3.StringVal(" M/s"))))
    rxn2 = Reaction({"A": 1}, {"B": 1}, m, checks=())
    v.prove("plain_float_through_magnitude_fmt", v.call(p._Reaction_param_str, rxn2) == Sym(F(z3.IntVal(3), m.e)))
    whole = v.call(p._print_Reaction, rxn2)
    v.prove("reaction_then_separator_then_param", whole == Sym(z3.Concat(z3.StringVal("A -> B; "), F(z3.IntVal(3), m.e))))
    v.prove("without_param", v.call(p._print_Reaction, rxn2, with_param=False) == "A -> B")


@harness("C20", "public_wrappers", functions=[NUM + ":number_to_scientific_latex", NUM + ":number_to_scientific_unicode", NUM + ":number_to_scientific_html"], kind="data")
def _(v):
    """the three public functions, each with ITS renderer, separator and unit formatter: expected texts written by hand from the notation
    (significand, then 'times ten to the exponent' in that medium, '1 x' omitted only for a POSITIVE unit significand, unit after the separator,
    uncertainty in parentheses before the power of ten)"""
    from chempy.printing.numbers import number_to_scientific_latex as L, number_to_scientific_unicode as U, number_to_scientific_html as H
    table = [
        (2e10, "2\\cdot 10^{10}", "2·10¹⁰", "2&sdot;10<sup>10</sup>"),
        (1e-17, "10^{-17}", "10⁻¹⁷", "10<sup>-17</sup>"),
        (-1e-17, "-1\\cdot 10^{-17}", "-1·10⁻¹⁷", "-1&sdot;10<sup>-17</sup>"),
        (123456.0, "1.2346\\cdot 10^{5}", "1.2346·10⁵", "1.2346&sdot;10<sup>5</sup>"),
        (3.14159, "3.1416", "3.1416", "3.1416"),
        (-0.0025, "-0.0025", "-0.0025", "-0.0025"),
        (0.0, "0", "0", "0"),
    ]
    bad = [(x, f.__name__, f(x)) for x, *want in table for f, w in zip((L, U, H), want) if f(x) != w]
    v.prove("plain_numbers", not bad, detail=repr(bad))
    v.prove("requested_digits", (L(2.345e10, fmt=2), U(2.345e10, fmt=2), H(2.345e10, fmt=2)) == ("2.3\\cdot 10^{10}", "2.3·10¹⁰", "2.3&sdot;10<sup>10</sup>")
            and U(1.23456789e-3, fmt=8) == "0.0012345679" and U(7.0, fmt=1) == "7")
    v.prove("uncertainty_before_the_power_of_ten", (L(1.2345e-5, 1.2e-7), U(1.2345e-5, 1.2e-7), H(1.2345e-5, 1.2e-7)) ==
            ("1.234(12)\\cdot 10^{-5}", "1.234(12)·10⁻⁵", "1.234(12)&sdot;10<sup>-5</sup>"))
    try:
        from chempy.units import default_units as u
        q = 3e5 * u.m / u.s
        v.prove("unit_after_the_number", (L(q), U(q), H(q)) == ("3\\cdot 10^{5}\\,\\mathrm{\\frac{m}{s}}", "3·10⁵ m/s", "3&sdot;10<sup>5</sup> m/s")
                and U(1500 * u.m, unit=u.km) == "1.5 km" and U(2.0 * u.km, 0.25 * u.km, unit=u.m) == "2000(250) m")
    except ImportError:
        pass


@harness("C20", "reaction_parameter_with_a_real_unit", functions=["chempy.printing.string:StrPrinter._Reaction_param_str", "chempy.printing.string:StrPrinter._print_Reaction"], kind="data")
def _(v):
    """'a reaction printed with its parameter shows that parameter's magnitude and unit' on quantities of the real units package, also for units that
    simplify to a pure number but carry a scale (percent, mM/M, g/kg): the magnitude is only meaningful together with the unit it is expressed in,
    so the unit must be there in all four formats (hand-written texts)"""
    import warnings
    from chempy.chemistry import Equilibrium, Reaction
    from chempy.units import default_units as u
    table = [(5 * u.percent, "5 %", "5 %", "%"), (3 * u.mM / u.M, "3 mM/M", "3 mM/M", "mM"), (4 * u.g / u.kg, "4 g/kg", "4 g/kg", "kg"),
             (2.5 / u.M / u.s, "2.5 1/(s*M)", "2.5 1/(s·M)", "s"), (1.5e-3 * u.m ** 3 / u.mol / u.s, "0.0015 m**3/(s*mol)", "0.0015 m³/(s·mol)", "mol")]
    bad = []
    with warnings.catch_warnings():
        warnings.simplefilter("ignore")
        for cls, arrows in ((Equilibrium, ("=", "⇌", "&harr;", "\\rightleftharpoons")), (Reaction, ("->", "→", "&rarr;", "\\rightarrow"))):
            for q, plain, uni, token in table:
                r = cls({"A": 1}, {"B": 1}, q, checks=())
                got = (r.string(with_param=True), r.unicode({}, with_param=True), r.html({}, with_param=True), r.latex({}, with_param=True))
                if got[0] != "A %s B; %s" % (arrows[0], plain) or got[1] != "A %s B; %s" % (arrows[1], uni):
                    bad.append((str(q), got[:2]))
                mag = plain.split(" ")[0]
                for g, a in zip(got[2:], arrows[2:]):
                    head, _, tail = g.partition(a + " B")
                    if head != "A " or mag not in tail or token not in tail.split(mag, 1)[1]:
                        bad.append((str(q), g))
    v.prove("magnitude_and_unit_in_all_four_formats", not bad, detail=repr(bad[:3]))
    # 'the unit rendered after it' in LaTeX: a bare % starts a TeX comment and swallows the closing brace, so it is no rendering of the unit
    import re
    from chempy.printing.numbers import number_to_scientific_latex
    texts = [number_to_scientific_latex(5 * u.percent), number_to_scientific_latex(50 * u.percent, 5 * u.percent), Reaction({"A": 1}, {"B": 1}, 5 * u.percent, checks=()).latex({}, with_param=True)]
    v.prove("percent_is_escaped_in_latex", all("%" in t and re.search(r"(?<!\\)%", t) is None for t in texts), detail=repr(texts))
