"""Shared helpers for the bounded stand-ins C16, C17, C18, C20 (deterministic fork pool, seeds, tolerances)."""
from __future__ import annotations

import hashlib
import json
import multiprocessing as mp
import random

PROCS = 16


def pmap(fn, items, procs=PROCS):
    """Order-preserving map over `items` in a fork pool (fn must be a module-level function).

    Results are deterministic because every item carries its own seed / full description and the
    output order equals the input order."""
    items = list(items)
    if procs <= 1 or len(items) < 4:
        return [fn(it) for it in items]
    ctx = mp.get_context("fork")
    n = min(procs, len(items))
    chunk = max(1, len(items) // (n * 8))
    with ctx.Pool(n) as pool:
        return pool.map(fn, items, chunksize=chunk)


def sub_rng(seed, *tags):
    """Independent random.Random derived from the run seed and a tag tuple (stable across processes)."""
    h = hashlib.sha256(("%d|" % seed + "|".join(map(str, tags))).encode()).hexdigest()
    return random.Random(int(h[:16], 16))


def key_of(obj):
    return json.dumps(obj, sort_keys=True, default=str)


def relerr(a, b, floor=0.0):
    """|a-b| / max(|a|, |b|, floor); 0 when both are exactly equal."""
    if a == b:
        return 0.0
    d = max(abs(a), abs(b), floor)
    return abs(a - b) / d if d else float("inf")


class Collector(object):
    """Accumulates the outcome of cases for one stand-in."""

    def __init__(self, name, rule, bound, exhaustive=False, max_samples=4, max_violations=25):
        self.name, self.rule, self.bound, self.exhaustive = name, rule, bound, exhaustive
        self.evaluations = 0
        self.keys = set()
        self.samples = []
        self.violations = []
        self._ms, self._mv = max_samples, max_violations
        self.nviol = 0

    def add(self, inputs, ok, detail="", nontrivial=True, count=1):
        self.evaluations += count
        if nontrivial:
            self.keys.add(key_of(inputs))
        if len(self.samples) < self._ms and ok and nontrivial:
            self.samples.append(inputs)
        if not ok:
            self.nviol += 1
            if len(self.violations) < self._mv:
                self.violations.append({"inputs": inputs, "detail": detail})

    def result(self):
        d = {"name": self.name, "rule": self.rule, "bound": self.bound, "evaluations": self.evaluations,
             "distinct": len(self.keys), "exhaustive": self.exhaustive, "samples": self.samples,
             "violations": sorted(self.violations, key=lambda v: key_of(v["inputs"]))}
        if self.nviol > len(self.violations):
            d["violations_total"] = self.nviol
        return d
