#!/usr/bin/env python3
"""Apply a patch (or sed-style edit) to a scratch copy of /repo/chempy and run checks against it.

usage: tools/mutest.py [--sed FILE 's/a/b/'] [--patch FILE.diff] PROP [PROP...]
Scratch copy lives in a mkdtemp dir outside /repo and /verif and is removed afterwards.
Exit codes of the checks are printed; evidence files are not touched (VCHECK_NO_EVIDENCE=1).
"""
import argparse, os, shutil, subprocess, sys, tempfile
HERE = os.path.dirname(os.path.dirname(os.path.abspath(__file__)))


def main():
    ap = argparse.ArgumentParser()
    ap.add_argument("--patch", action="append", default=[])
    ap.add_argument("--reverse", action="store_true")
    ap.add_argument("--sed", nargs=2, action="append", default=[], metavar=("FILE", "EXPR"))
    ap.add_argument("--py", nargs=3, action="append", default=[], metavar=("FILE", "OLD", "NEW"), help="exact string replacement")
    ap.add_argument("--tier", default="quick")
    ap.add_argument("--tests", action="store_true", help="also run the repository test-suite on the scratch copy")
    ap.add_argument("-v", action="store_true")
    ap.add_argument("props", nargs="+")
    a = ap.parse_args()
    d = tempfile.mkdtemp(prefix="mut_")
    rc = {}
    try:
        shutil.copytree("/repo/chempy", os.path.join(d, "chempy"), ignore=shutil.ignore_patterns("__pycache__"))
        for f in ("conftest.py", "setup.cfg"):
            if os.path.exists("/repo/" + f):
                shutil.copy("/repo/" + f, d)
        for p in a.patch:
            r = subprocess.run(["patch", "-p1", "-s"] + (["-R"] if a.reverse else []) + ["-i", os.path.abspath(p)], cwd=d)
            if r.returncode:
                print("patch failed", p); return 3
        for f, e in a.sed:
            before = open(os.path.join(d, f)).read()
            subprocess.run(["sed", "-i", "-E", e, os.path.join(d, f)], check=True)
            if open(os.path.join(d, f)).read() == before:
                print("sed made no change:", f, e); return 3
        for f, old, new in a.py:
            s = open(os.path.join(d, f)).read()
            if s.count(old) != 1:
                print("py replace: %d occurrences of %r in %s" % (s.count(old), old, f)); return 3
            open(os.path.join(d, f), "w").write(s.replace(old, new))
        if a.tests:
            r = subprocess.run(["/venv/bin/python", "-m", "pytest", "-q", "-p", "no:cacheprovider", "-n", "8", "--timeout=900", "-x", "-q"], cwd=d, capture_output=True, text=True)
            print("tests:", r.stdout.strip().splitlines()[-1] if r.stdout.strip() else r.stderr[-300:])
        env = dict(os.environ, VCHECK_NO_EVIDENCE="1")
        for p in a.props:
            r = subprocess.run([os.path.join(HERE, "vcheck"), p, "--tier", a.tier, "--repo", d] + (["-v"] if a.v else []), env=env, capture_output=True, text=True)
            rc[p] = r.returncode
            lines = [l for l in r.stdout.splitlines() if l.startswith(("VIOLATION", "UNDECIDED", "CHECKER-ERROR", "KNOWN", "vcheck"))]
            print("== %s exit=%d" % (p, r.returncode))
            for l in (r.stdout.splitlines() if a.v else lines)[:60]:
                print("   ", l[:400])
            if r.returncode == 3:
                print(r.stdout[-3000:], r.stderr[-3000:])
    finally:
        shutil.rmtree(d, ignore_errors=True)
    return 0


if __name__ == "__main__":
    sys.exit(main())
