"""Symbolic containers, object records and the `Unknown` value."""
from __future__ import annotations

import z3

from .sym import (Sym, Unsupported, cur, fresh_name, to_z3, wrap, wrap_num, is_sym, kind_of_sort)

SORTS = {"int": z3.IntSort(), "real": z3.RealSort(), "bool": z3.BoolSort(), "str": z3.StringSort()}


def sort_of(kind):
    return SORTS[kind] if isinstance(kind, str) else kind


class Unknown:
    """result of an unmodelled external: carries no facts (sound over-approximation)"""
    _pyvc_symbolic = True

    def __init__(self, why=""):
        self.why = why

    def __repr__(self):
        return "Unknown(%s)" % self.why

    def _u(self, *a, **k):
        return Unknown(self.why)

    __add__ = __radd__ = __sub__ = __rsub__ = __mul__ = __rmul__ = __truediv__ = __rtruediv__ = _u
    __pow__ = __rpow__ = __neg__ = __pos__ = __abs__ = __floordiv__ = __mod__ = __getitem__ = __call__ = _u
    __lt__ = __le__ = __gt__ = __ge__ = _u

    def __eq__(self, o):
        return Unknown(self.why)

    def __ne__(self, o):
        return Unknown(self.why)

    __hash__ = object.__hash__

    def __getattr__(self, name):
        if name.startswith("__"):
            raise AttributeError(name)
        return Unknown(self.why + "." + name)

    def __bool__(self):
        p = cur()
        p.havoc_used = True
        return p.branch(z3.Bool(fresh_name("unk")))

    def __iter__(self):
        raise Unsupported("iteration over Unknown (%s) outside a havocked loop" % self.why)

    def __len__(self):
        raise Unsupported("len of Unknown")


class SymSeq:
    """sequence (list/tuple/generator result) of symbolic or concrete length.

    `at` is a python callable index -> value; the index may be a python int, a Sym or a
    z3 bound variable wrapped in Sym (for quantified facts)."""
    _pyvc_symbolic = True

    def __init__(self, length, at, name="seq"):
        self.length = length
        self.at = at
        self.name = name

    def sym_len(self):
        return self.length

    def concrete_len(self):
        return isinstance(self.length, int)

    def __len__(self):
        if isinstance(self.length, int):
            return self.length
        raise Unsupported("len() of a sequence of symbolic length outside the interpreter")

    def __iter__(self):
        if isinstance(self.length, int):
            return iter([self.at(i) for i in range(self.length)])
        raise Unsupported("native iteration over a sequence of symbolic length (%s)" % self.name)

    def __getitem__(self, i):
        if isinstance(i, slice):
            raise Unsupported("slice of symbolic sequence")
        n = self.length
        if isinstance(i, int) and isinstance(n, int):
            if i < 0:
                i += n
            if not 0 <= i < n:
                raise IndexError("list index out of range")
            return self.at(i)
        ei = to_z3(i)
        en = to_z3(n)
        ei2 = z3.If(ei < 0, ei + en, ei)
        cur().oblige_or_raise(z3.And(ei2 >= 0, ei2 < en), IndexError, "list index out of range")
        return self.at(wrap_num(ei2))

    def map(self, f, name=None):
        at = self.at
        return SymSeq(self.length, lambda i: f(at(i)), name or self.name + ".map")

    def __repr__(self):
        return "SymSeq(%s,len=%r)" % (self.name, self.length)


class SymDict:
    """dict with symbolic key set.  dom: Array K->Bool.  val: Array K->V (scalar values)
    or python callable key->value (structured, read-only).  Ghost iteration order."""
    _pyvc_symbolic = True

    def __init__(self, name, ksort, dom, val, order=None, vkind=None, ordered=False):
        self.name = name
        self.ksort = sort_of(ksort)
        self.dom = dom
        self.val = val
        self._order = order   # (n: Sym/int, ord: Array Int->K, idx: Function K->Int)
        self.vkind = vkind
        self.frozen = False

    # -------- construction helpers
    @classmethod
    def fresh(cls, name, ksort, vkind):
        ks = sort_of(ksort)
        dom = z3.Const(fresh_name(name + ".dom"), z3.ArraySort(ks, z3.BoolSort()))
        if callable(vkind):
            val = vkind
            vk = None
        else:
            val = z3.Const(fresh_name(name + ".val"), z3.ArraySort(ks, sort_of(vkind)))
            vk = vkind
        return cls(name, ks, dom, val, None, vk)

    @classmethod
    def empty(cls, name, ksort, vkind):
        ks = sort_of(ksort)
        vs = sort_of(vkind)
        dom = z3.K(ks, z3.BoolVal(False))
        default = {"int": z3.IntVal(0), "real": z3.RealVal(0), "bool": z3.BoolVal(False), "str": z3.StringVal("")}[vkind]
        val = z3.K(ks, default)
        d = cls(name, ks, dom, val, None, vkind)
        d._order = (0, z3.K(z3.IntSort(), to_z3({"int": 0, "str": ""}.get(kind_of_sort(ks), 0))), None)
        return d

    def scalar(self):
        return not callable(self.val)

    def copy(self):
        return SymDict(self.name + "'", self.ksort, self.dom, self.val, self._order, self.vkind)

    # -------- reads
    def has(self, k):
        return wrap(z3.Select(self.dom, to_z3(k)))

    def value(self, k):
        """value stored at k without a membership check"""
        if callable(self.val):
            return self.val(k)
        return wrap_num_or(z3.Select(self.val, to_z3(k)))

    def __contains__(self, k):
        return bool(self.has(k))

    def __getitem__(self, k):
        cur().oblige_or_raise(z3.Select(self.dom, to_z3(k)), KeyError, "key not in %s" % self.name)
        return self.value(k)

    def get(self, k, default=None):
        if callable(self.val):
            if bool(self.has(k)):
                return self.val(k)
            return default
        if default is None:
            if bool(self.has(k)):
                return self.value(k)
            return None
        ev = z3.Select(self.val, to_z3(k))
        ed = to_z3(default)
        if ev.sort() != ed.sort():
            if ev.sort() == z3.RealSort() and ed.sort() == z3.IntSort():
                ed = z3.ToReal(ed)
            elif ev.sort() == z3.IntSort() and ed.sort() == z3.RealSort():
                ev = z3.ToReal(ev)
            else:
                raise Unsupported("dict.get default of other sort")
        return wrap_num_or(z3.If(z3.Select(self.dom, to_z3(k)), ev, ed))

    # -------- ghost order
    def order(self):
        if self._order is None:
            n = z3.Int(fresh_name(self.name + ".n"))
            ordr = z3.Const(fresh_name(self.name + ".ord"), z3.ArraySort(z3.IntSort(), self.ksort))
            idx = z3.Function(fresh_name(self.name + ".idx"), self.ksort, z3.IntSort())
            i = z3.Int(fresh_name("i"))
            k = z3.Const(fresh_name("k"), self.ksort)
            p = cur()
            p.assume(n >= 0)
            p.assume(z3.ForAll([i], z3.Implies(z3.And(i >= 0, i < n),
                                               z3.And(z3.Select(self.dom, z3.Select(ordr, i)),
                                                      idx(z3.Select(ordr, i)) == i)),
                               patterns=[z3.Select(ordr, i)]))
            p.assume(z3.ForAll([k], z3.Implies(z3.Select(self.dom, k),
                                               z3.And(idx(k) >= 0, idx(k) < n, z3.Select(ordr, idx(k)) == k)),
                               patterns=[idx(k)]))
            # make the second axiom fire for every key the program asks about
            self._order = (Sym(n), ordr, idx)
        return self._order

    def sym_len(self):
        return self.order()[0]

    def key_at(self, i):
        return wrap_num_or(z3.Select(self.order()[1], to_z3(i)))

    def index_of(self, k):
        """ghost: position of key k in the iteration order (meaningful when k in dom)"""
        idx = self.order()[2]
        if idx is None:
            raise Unsupported("index_of on dict without ghost index")
        return wrap_num(idx(to_z3(k)))

    def keys(self):
        n, ordr, _ = self.order()
        return SymSeq(n, lambda i: wrap_num_or(z3.Select(ordr, to_z3(i))), self.name + ".keys")

    def values(self):
        n, ordr, _ = self.order()
        return SymSeq(n, lambda i: self.value(wrap_num_or(z3.Select(ordr, to_z3(i)))), self.name + ".values")

    def items(self):
        n, ordr, _ = self.order()

        def at(i):
            k = wrap_num_or(z3.Select(ordr, to_z3(i)))
            return (k, self.value(k))
        return SymSeq(n, at, self.name + ".items")

    def __iter__(self):
        return iter(self.keys())

    def __len__(self):
        n = self.sym_len()
        if isinstance(n, int):
            return n
        raise Unsupported("len() of symbolic dict outside the interpreter")

    # -------- writes (scalar-valued only)
    def __setitem__(self, k, v):
        if callable(self.val):
            raise Unsupported("write into structured symbolic dict")
        ek = to_z3(k)
        ev = to_z3(v)
        vs = self.val.sort().range()
        if ev.sort() != vs:
            if vs == z3.RealSort() and ev.sort() == z3.IntSort():
                ev = z3.ToReal(ev)
            elif vs == z3.IntSort() and ev.sort() == z3.RealSort():
                # promote the whole value array lazily: int dict receiving a real
                old = self.val
                j = z3.Const(fresh_name("k"), self.ksort)
                self.val = z3.Lambda([j], z3.ToReal(z3.Select(old, j)))
                self.vkind = "real"
            else:
                raise Unsupported("dict value sort change")
        self.dom = z3.Store(self.dom, ek, z3.BoolVal(True))
        self.val = z3.Store(self.val, ek, ev)
        self._order = None  # ghost order no longer known

    def update(self, other=(), **kw):
        """dict.update with a mapping / pairs of concrete size: one store per entry"""
        if isinstance(other, SymDict) or (isinstance(other, SymSeq) and not other.concrete_len()):
            raise Unsupported("dict.update with a mapping of symbolic size")
        for k, v in (other.items() if isinstance(other, dict) else other):
            self[k] = v
        for k, v in kw.items():
            self[k] = v

    def pop(self, k, *default):
        if callable(self.val):
            raise Unsupported("pop from structured symbolic dict")
        ek = to_z3(k)
        if not default:
            cur().oblige_or_raise(z3.Select(self.dom, ek), KeyError, "pop of missing key")
            v = self.value(k)
        else:
            v = self.get(k, default[0])
        self.dom = z3.Store(self.dom, ek, z3.BoolVal(False))
        self._order = None
        return v

    def __delitem__(self, k):
        self.pop(k)

    def __repr__(self):
        return "SymDict(%s)" % self.name


def wrap_num_or(e):
    k = kind_of_sort(e.sort())
    if k in ("int", "real"):
        return wrap_num(e)
    return wrap(e)


def promote_dict(d, name="dict"):
    """python dict with scalar keys/values -> SymDict (used when a symbolic key is stored)"""
    kinds = set()
    vk = set()
    for k, v in d.items():
        kinds.add("str" if isinstance(k, str) or (is_sym(k) and k.kind == "str") else "int")
        vk.add("real" if isinstance(v, float) or (is_sym(v) and v.kind == "real") else "int")
    return kinds, vk


class Obj:
    """record standing for an instance of a real chempy class whose fields are symbolic"""
    _pyvc_symbolic = True

    def __init__(self, cls, **attrs):
        object.__setattr__(self, "_cls", cls)
        object.__setattr__(self, "_attrs", dict(attrs))

    def __repr__(self):
        return "Obj<%s>" % self._cls.__name__
