"""C19  Physical-chemistry relations give unit-independent values in their valid ranges."""
import fractions
import math

from pyvc.api import harness
from pyvc import spec as SP
from pyvc.sym import Sym

META = {
    "explanation": "under the unit abstraction 5.1 (generic units of symbolic scale = 'any compatible unit'): each relation called with quantities returns the same physical (SI) value and the dimension of the quantity it names as the plain call in documented units; range warnings are emitted iff a temperature/pressure lies outside the documented range; Henry inverses; literature coefficients and anchor values as data obligations; the salting-out sum for any concentrations in any units; density_from_concentration returns a fixed point of the forward correlation within atol for ANY forward correlation (loop invariant, uninterpreted callback); the reference viscosity eta20 in any unit scales the published ratio (anchor eta(20 degC) = eta20); inputs in their documented positions; a grid of temperatures (x pressures) handed over as one array is evaluated element by element and warns iff some element lies outside",
    "trusted_base": ["assumed contract 5.1 (pyvc/qmodel.py) for the `quantities` package, validated against the real package in C09", "assumed contract 5.3 (exp/log as real functions)",
                     "published coefficients/anchors typed into this file from Tanaka 2001, Korson 1969, Holz 2000, Bradley-Pitzer 1979; handbook densities of sulfuric acid (Int. Crit. Tables / Perry) and Sechenov constants of oxygen (Davis et al. 1967)"],
    "not_decided": ["fidelity of the correlations to nature beyond the published anchors", "temperatures in scaled units (outside the property's quantifier; the code supports kelvin only)", "water_viscosity with a units object AND an array of temperatures (refused on the pinned tree: 10 ** quantity array)",
                    "sulfuric_acid_density itself symbolically (float() of the temperature and numpy arrays inside: data obligations here, bounded stand-in); the coefficient table of Myhre 1998 and the parameter tables of Schumpe 1993 are not typed in from the papers (not at hand): handbook / measured anchors only",
                    "density_from_concentration is proved for an arbitrary forward correlation without units and with a units object and inputs in mol/dm3, g/mol, g/cm3 (generic units: stand-in); that it RETURNS is shown for a constant correlation and, as data, for sulfuric_acid_density up to w = 0.6"],
    "assumptions": ["temperatures are quantified in kelvin (the documented unit)"],
}
Fr = fractions.Fraction


def F(x):
    return Fr(repr(x)) if isinstance(x, float) else Fr(x)


def units_env(v):
    """(units namespace, table) in symbolic mode; the real default_units in concrete mode"""
    if v.symbolic:
        from pyvc.qmodel import Units, std_table
        t = std_table()
        return Units(t), t
    from chempy.units import default_units
    return default_units, None


def si(v, q, unit_expr=None):
    """physical value of a result in SI"""
    if v.symbolic:
        from pyvc.qmodel import si_value
        return si_value(q)
    from chempy.units import to_unitless
    return float(to_unitless(q, unit_expr))


def dimv(q):
    from pyvc.qmodel import dim_of
    return dim_of(q)


def _range_warnings(v):
    # every warning of the call counts, whatever its wording: the correlations have nothing else to warn about, so a reworded range warning
    # is still the range warning and a warning of any other text inside the range is still a violation of 'never when all inputs lie inside'
    # (the events carry the message only; the category is not recorded by the engine).  Not counted: numpy's floating-point RuntimeWarnings
    # ('invalid value / divide by zero / overflow / underflow encountered in log'), which the arithmetic itself gives far outside a range
    # (water_permittivity(676 K, 3.6 bar) takes the log of a negative number) and which are no statement of the library about a range
    return [e for e in v.events("warning") if " encountered in " not in str(e[1])]


def _warned(v):
    return len(_range_warnings(v)) > 0


def _range_harness(name, modname, fname, lo, hi, si_unit_scale, dims, T_lo=200, T_hi=700, spec=None, unit_attr=None):
    fq = "%s:%s" % (modname, fname)

    @harness("C19", name + ".units_equal_plain", functions=[fq], div_mode="assume", samples=25)
    def _(v):
        import importlib
        fn = getattr(importlib.import_module(modname), fname)
        T = v.real("T", lo=T_lo, hi=T_hi)
        u, table = units_env(v)
        plain = v.call(fn, T, warn=False)
        withu = v.call(fn, T * u.K, units=u, warn=False)
        if v.symbolic:
            v.prove_identity("same_physical_value", si(v, withu), plain * si_unit_scale)
            v.prove("dimension", dimv(withu) == dims)
        else:
            v.prove("same_physical_value", v.eq(si(v, withu, unit_attr(u)) * 1.0, float(plain) * float(si_unit_scale), rel=1e-9))
        if spec is not None:
            v.prove_identity("formula", plain, spec(T, v), rel=1e-9)

    @harness("C19", name + ".range_warning", functions=[fq], div_mode="assume", samples=40)
    def _(v):
        import importlib
        fn = getattr(importlib.import_module(modname), fname)
        T = v.real("T", lo=T_lo, hi=T_hi)
        if not v.symbolic:
            T = v.choice("T_edge", [T, lo, hi, lo - 0.01, hi + 0.01, lo + 0.01, hi - 0.01])
        use_units = v.bool("use_units")
        warn = v.bool("warn")
        u, table = units_env(v)
        if use_units:
            v.call(fn, T * u.K, units=u, warn=warn)
        else:
            v.call(fn, T, warn=warn)
        outside = SP.disj([T < lo, T > hi])
        v.prove("warned_iff_outside_range_and_enabled", SP.iff(_warned(v), SP.conj([warn, outside])))
        v.prove("at_most_one_warning", len(_range_warnings(v)) <= 1)


def tanaka(T, v):
    t = T - F(273.15)
    a = [F(-3.983035), F(301.797), F(522528.9), F(69.34881), F(999.974950)]
    return a[4] * (1 - ((t + a[0]) ** 2 * (t + a[1])) / (a[2] * (t + a[3])))


def korson(T, v):
    t = T - F(273.15)
    A, B, C, eta20 = F(1.1709), F(0.001827), F(89.93), F(1.0020)
    ex = (A * (20 - t) - B * (t - 20) ** 2) / (t + C)
    return eta20 * SP.spow(10, ex) if not isinstance(ex, Sym) else eta20 * Sym(__import__("pyvc.sym", fromlist=["ufun"]).ufun("exp10")(ex.e))


def holz(T, v):
    D0, TS, gamma = F(1.635e-8), F(215.05), F(2.063)
    return D0 * SP.spow(T / TS - 1, gamma)


_range_harness("water_density", "chempy.properties.water_density_tanaka_2001", "water_density", 273.15, 313.15, 1, (-3, 1, 0, 0, 0, 0, 0), T_lo=250, T_hi=340,
               spec=tanaka, unit_attr=lambda u: u.kg / u.m ** 3)
_range_harness("water_viscosity", "chempy.properties.water_viscosity_korson_1969", "water_viscosity", 273.15, 373.15, Fr(1, 1000), (-1, 1, -1, 0, 0, 0, 0), T_lo=250, T_hi=400,
               spec=korson, unit_attr=lambda u: u.pascal * u.second)
_range_harness("water_self_diffusion_coefficient", "chempy.properties.water_diffusivity_holz_2000", "water_self_diffusion_coefficient", 273.15, 373.15, 1, (2, 0, -1, 0, 0, 0, 0),
               T_lo=250, T_hi=400, spec=holz, unit_attr=lambda u: u.m ** 2 / u.s)


@harness("C19", "coefficients_and_anchors", functions=["chempy.properties.water_density_tanaka_2001:water_density", "chempy.properties.water_viscosity_korson_1969:water_viscosity",
                                                       "chempy.properties.water_diffusivity_holz_2000:water_self_diffusion_coefficient",
                                                       "chempy.properties.water_permittivity_bradley_pitzer_1979:water_permittivity"], kind="data")
def _(v):
    from chempy.properties.water_density_tanaka_2001 import water_density
    from chempy.properties.water_viscosity_korson_1969 import water_viscosity
    from chempy.properties.water_diffusivity_holz_2000 import water_self_diffusion_coefficient
    from chempy.properties.water_permittivity_bradley_pitzer_1979 import water_permittivity
    import chempy.properties.water_viscosity_korson_1969 as K
    import chempy.properties.water_diffusivity_holz_2000 as H
    v.prove("tanaka_coefficients", tuple(water_density(just_return_a=True)) == (-3.983035, 301.797, 522528.9, 69.34881, 999.974950))
    v.prove("tanaka_anchor_277.13K", abs(water_density(277.13) - 999.9749) < 2e-3)
    grid = [273.15 + 0.05 * i for i in range(801)]
    dens = [water_density(T, warn=False) for T in grid]
    imax = max(range(len(grid)), key=lambda i: dens[i])
    v.prove("densest_near_4C", 3.9 <= grid[imax] - 273.15 <= 4.1, "maximum at %.2f C" % (grid[imax] - 273.15))
    # the published constants, wherever the module exposes them under these names (where it keeps them is not part of the property: a module
    # that has them inside the function is pinned by water_viscosity.units_equal_plain.formula / the anchors alone)
    kp = {"A": 1.1709, "B": 0.001827, "C": 89.93, "eta20_cP": 1.0020}
    v.prove("korson_parameters", all(getattr(K, n) == x for n, x in kp.items() if hasattr(K, n)), detail=repr({n: getattr(K, n, None) for n in kp}))
    v.prove("korson_anchor_20C", abs(water_viscosity(293.15) - 1.0020) < 1e-12)
    vis = [water_viscosity(273.15 + i) for i in range(101)]
    v.prove("viscosity_decreasing", all(a > b for a, b in zip(vis, vis[1:])))
    hp = {"D0": 1.635e-8, "TS": 215.05, "gamma": 2.063}
    v.prove("holz_parameters", all(getattr(H, n) == x for n, x in hp.items() if hasattr(H, n)), detail=repr({n: getattr(H, n, None) for n in hp}))
    v.prove("holz_anchor_25C", abs(water_self_diffusion_coefficient(298.15) / 2.299e-9 - 1) < 5e-3)
    v.prove("bradley_pitzer_U", tuple(water_permittivity(just_return_U=True)) == (3.4279e2, -5.0866e-3, 9.4690e-7, -2.0525, 3.1159e3, -1.8289e2, -8.0325e3, 4.2142e6, 2.1417))
    v.prove("permittivity_anchor_25C_1bar", abs(water_permittivity(298.15, 1) - 78.38) < 0.1)
    eps = [water_permittivity(273.15 + 5 * i, 1, warn=False) for i in range(20)]
    v.prove("permittivity_decreasing", all(a > b for a, b in zip(eps, eps[1:])))


@harness("C19", "water_permittivity.units_equal_plain", functions=["chempy.properties.water_permittivity_bradley_pitzer_1979:water_permittivity"], div_mode="assume", samples=25)
def _(v):
    from chempy.properties.water_permittivity_bradley_pitzer_1979 import water_permittivity as fn
    T, P = v.real("T", lo=273.15, hi=620), v.real("P_bar", lo=1, hi=1900)
    u, table = units_env(v)
    plain = v.call(fn, T, P, warn=False)
    if v.symbolic:
        pu = table.generic("pu", (-1, 1, -2, 0, 0, 0, 0))      # any pressure unit
        Pq = (P * 100000 / pu.t.scale["pu"]) * pu               # the same pressure expressed in that unit
        withu = v.call(fn, T * u.K, Pq, units=u, warn=False)
        v.prove("dimensionless", dimv(withu) == (0,) * 7)
        v.prove_identity("same_value_any_pressure_unit", si(v, withu), plain)
    else:
        withu = v.call(fn, T * u.K, (P * 1e5) * u.pascal, units=u, warn=False)
        v.prove("same_value_any_pressure_unit", v.eq(si(v, withu, 1), float(plain), rel=1e-9))


@harness("C19", "water_permittivity.range_warning", functions=["chempy.properties.water_permittivity_bradley_pitzer_1979:water_permittivity"], div_mode="assume", samples=40)
def _(v):
    from chempy.properties.water_permittivity_bradley_pitzer_1979 import water_permittivity as fn
    T, P = v.real("T", lo=250, hi=700), v.real("P_bar", lo=1, hi=6000)
    warn = v.bool("warn")
    v.call(fn, T, P, warn=warn)
    outT = SP.disj([T < 273.15, T > 273.15 + 350])
    # 'never when all inputs lie inside': 0..350 degC and pressure up to 5000 bar (up to 70 degC) / 2000 bar (above).  What happens for a pressure
    # beyond its limit at an admissible temperature is not part of the property (on the pinned tree the 5000 bar test is unreachable: no warning)
    p_limit = SP.ite(T <= 273.15 + 70, 5000, 2000)
    v.prove("silent_inside", SP.implies(SP.conj([SP.neg(outT), P <= p_limit]), SP.neg(_warned(v))))
    v.prove("at_most_one_warning", len(_range_warnings(v)) <= 1)
    v.prove("warned_outside_temperature", SP.iff(SP.conj([warn, outT]), SP.conj([_warned(v), outT])))
    v.prove("never_when_disabled", SP.implies(SP.neg(warn), SP.neg(_warned(v))))
    v.prove("pressure_warning_above_2000bar_when_hot", SP.implies(SP.conj([warn, SP.neg(outT), T > 273.15 + 70, P > 2000]), _warned(v)))


# ---------------------------------------------------------------------------- Henry
@harness("C19", "Henry", functions=["chempy.henry:Henry_H_at_T", "chempy.henry:Henry.__call__", "chempy.henry:Henry.get_c_at_T_and_P", "chempy.henry:Henry.get_P_at_T_and_c"],
         div_mode="assume", samples=25)
def _(v):
    from chempy.henry import Henry, Henry_H_at_T
    H, Td, T, P = v.real("H", lo=1e-4, hi=10), v.real("Tderiv", lo=-5000, hi=5000), v.real("T", lo=250, hi=400), v.real("P", lo=0.01, hi=50)
    be = v.backend()
    r = v.call(Henry_H_at_T, T, H, Td, backend=be)
    v.prove_identity("van_t_Hoff", r, H * be.exp(Td * (1 / T - (1 / 298.15))))  # 1/T0 is evaluated in floating point by the code (A2)
    T0 = v.real("T0", lo=250, hi=400)
    v.prove_identity("reference_temperature", v.call(Henry_H_at_T, T0, H, Td, T0, backend=be), H)
    h = Henry(H, Td)
    c = v.call(h.get_c_at_T_and_P, T, P, backend=be)
    v.prove_identity("c_is_P_times_H", c, P * r)
    v.prove_identity("inverse", v.call(h.get_P_at_T_and_c, T, c, backend=be), P)


@harness("C19", "Henry.units", functions=["chempy.henry:Henry_H_at_T", "chempy.henry:HenryWithUnits.__call__"], div_mode="assume", samples=25)
def _(v):
    from chempy.henry import Henry_H_at_T, Henry
    H, Td, T, P = v.real("H", lo=1e-4, hi=10), v.real("Tderiv", lo=-5000, hi=5000), v.real("T", lo=250, hi=400), v.real("P", lo=0.01, hi=50)
    u, table = units_env(v)
    plain = v.call(Henry_H_at_T, T, H, Td)
    if v.symbolic:
        cu = table.generic("cu", (-3, 0, 0, 0, 0, 0, 1))        # any concentration unit
        pu = table.generic("pu", (-1, 1, -2, 0, 0, 0, 0))      # any pressure unit
        Hq = H * cu / pu
        withu = v.call(Henry_H_at_T, T * u.K, Hq, Td * u.K, units=u)
        v.prove("dimension_conc_per_pressure", dimv(withu) == tuple(a - b for a, b in zip((-3, 0, 0, 0, 0, 0, 1), (-1, 1, -2, 0, 0, 0, 0))))
        v.prove_identity("same_physical_value", si(v, withu), plain * table.scale["cu"] / table.scale["pu"])
        c = v.call(Henry(Hq, Td * u.K).get_c_at_T_and_P, T * u.K, P * pu, units=u)
        v.prove("concentration_dimension", dimv(c) == (-3, 0, 0, 0, 0, 0, 1))
        v.prove_identity("concentration_value", si(v, c), P * plain * table.scale["cu"])
        # the class that carries units by default, here with an explicit reference temperature (the `units` argument is then not read; the default
        # argument itself is under contract in the data harness HenryWithUnits.default_units: a default is bound when the def is executed, the
        # override below does not reach it), and the inverse helper with units: pressure from concentration inverts concentration from pressure
        from chempy.henry import HenryWithUnits
        v.override_global("chempy.henry", "default_units", u)
        T0 = v.real("T0", lo=250, hi=400)
        hw = HenryWithUnits(Hq, Td * u.K, T0 * u.K)
        plain0 = v.call(Henry_H_at_T, T, H, Td, T0)
        w = v.call(hw, T * u.K)
        v.prove("HenryWithUnits.dimension", dimv(w) == tuple(a - b for a, b in zip((-3, 0, 0, 0, 0, 0, 1), (-1, 1, -2, 0, 0, 0, 0))))
        v.prove_identity("HenryWithUnits.same_physical_value_with_reference_temperature", si(v, w), plain0 * table.scale["cu"] / table.scale["pu"])
        cc = v.call(hw.get_c_at_T_and_P, T * u.K, P * pu)
        pp = v.call(hw.get_P_at_T_and_c, T * u.K, cc)
        v.prove("HenryWithUnits.pressure_dimension", dimv(pp) == (-1, 1, -2, 0, 0, 0, 0))
        v.prove_identity("HenryWithUnits.pressure_from_concentration_inverts", si(v, pp), P * table.scale["pu"])
    else:
        withu = v.call(Henry_H_at_T, T * u.K, H * u.mM / u.bar, Td * u.K, units=u)
        v.prove("same_physical_value", v.eq(si(v, withu, u.molar / u.pascal), float(plain) * 1e-3 / 1e5, rel=1e-9))


@harness("C19", "HenryWithUnits.default_units", functions=["chempy.henry:HenryWithUnits.__call__", "chempy.henry:Henry.get_c_at_T_and_P", "chempy.henry:Henry.get_P_at_T_and_c"], kind="data")
def _(v):
    """'Henry's law with van 't Hoff temperature dependence ... quantities expressed in any compatible units', for what distinguishes
    HenryWithUnits from Henry: called with a temperature only (no units argument, no reference temperature) it works with quantities, the
    reference temperature being 298.15 K.  Expected values by hand: H(T) = H0 exp(B (1/T - 1/298.15)); c = P H(T); P = c / H(T), in whatever
    compatible units the inputs are written (M/atm vs mol/m3/Pa, atm vs Pa, M vs mM).  A backend handed to the call (by keyword or in the third
    position) is the one whose exp is used.  With the real `quantities` package (the symbolic harness above cannot see a default argument)"""
    import math
    from chempy.henry import HenryWithUnits
    from chempy.units import default_units as u, to_unitless
    H0, B = 1.2e-3, 1800.0                                   # M/atm, K
    atm = 101325.0                                           # Pa (exact by definition)
    for T in (278.15, 298.15, 310.0):
        want = H0 * math.exp(B * (1 / T - 1 / 298.15))       # M/atm
        for label, Hq in (("M_per_atm", H0 * u.molar / u.atm), ("mol_per_m3_per_Pa", (H0 * 1000 / atm) * u.mol / u.m ** 3 / u.pascal)):
            name = "%s.T_%d" % (label, round(T))
            try:
                hw = HenryWithUnits(Hq, B * u.K)
                got = float(to_unitless(hw(T * u.K), u.molar / u.atm))
                c = float(to_unitless(hw.get_c_at_T_and_P(T * u.K, 2 * atm * u.pascal), u.mM))
                P = float(to_unitless(hw.get_P_at_T_and_c(T * u.K, 3.0 * u.mM), u.atm))
                ok = abs(got / want - 1) < 1e-9 and abs(c / (2 * want * 1000) - 1) < 1e-9 and abs(P / (3e-3 / want) - 1) < 1e-9
                det = repr((got, want, c, P))
            except Exception as ex:
                ok, det = False, repr(ex)[:200]
            v.prove(name, ok, detail=det)

    class Recording:
        def __init__(self):
            self.calls = 0

        def exp(self, x):
            self.calls += 1
            return math.exp(x)
    want = H0 * math.exp(B * (1 / 310.0 - 1 / 298.15))
    for label, call in (("keyword", lambda hw, be: hw(310.0 * u.K, backend=be)), ("third_position", lambda hw, be: hw(310.0 * u.K, u, be))):
        be = Recording()
        try:
            got = float(to_unitless(call(HenryWithUnits(H0 * u.molar / u.atm, B * u.K), be), u.molar / u.atm))
            ok, det = be.calls >= 1 and abs(got / want - 1) < 1e-9, repr((got, want, be.calls))
        except Exception as ex:
            ok, det = False, repr(ex)[:200]
        v.prove("backend_by_%s_is_used" % label, ok, detail=det)


# ---------------------------------------------------------------------------- Nernst, mobility
@harness("C19", "nernst_potential", functions=["chempy.electrochemistry.nernst:nernst_potential"], div_mode="assume", samples=25)
def _(v):
    from chempy.electrochemistry.nernst import nernst_potential as fn
    co, ci, T = v.real("c_out", lo=1e-3, hi=500), v.real("c_in", lo=1e-3, hi=500), v.real("T", lo=250, hi=400)
    z = v.choice("z", [1, 2, -1, -2, 3])
    plain = v.call(fn, co, ci, z, T)
    Rg, Fc = F(8.3144598), F(96485.33289)
    if v.symbolic:
        from pyvc.stubs import sym_log
        v.prove_identity("formula", plain, Rg * T / (z * Fc) * sym_log(co / ci))
        u, table = units_env(v)
        cu1 = table.generic("cu1", (-3, 0, 0, 0, 0, 0, 1))
        cu2 = table.generic("cu2", (-3, 0, 0, 0, 0, 0, 1))
        # outside and inside concentrations in two *different* arbitrary concentration units
        withu = v.call(fn, (co / table.scale["cu1"]) * cu1, (ci / table.scale["cu2"]) * cu2, z, T * u.K, None, u)
        v.prove("dimension_is_volt", dimv(withu) == (2, 1, -3, -1, 0, 0, 0))
        v.prove_identity("same_physical_value_any_concentration_units", si(v, withu), plain)
        # a constants object whose constants carry their units, alone and together with a units object: the same voltage both times
        import types
        consts = types.SimpleNamespace(Faraday_constant=Fc * u.coulomb / u.mol, molar_gas_constant=Rg * u.joule / u.kelvin / u.mol)
        for label, uarg in (("constants_only", None), ("constants_and_units", u)):
            withc = v.call(fn, (co / table.scale["cu1"]) * cu1, (ci / table.scale["cu2"]) * cu2, z, T * u.K, consts, uarg)
            v.prove(label + ".dimension_is_volt", dimv(withc) == (2, 1, -3, -1, 0, 0, 0))
            v.prove_identity(label + ".same_physical_value", si(v, withc), plain)
    else:
        v.prove("formula", v.eq(plain, float(Rg) * T / (z * float(Fc)) * math.log(co / ci), rel=1e-12))
        from chempy.units import default_units as u, default_constants
        withu = v.call(fn, co * 1e3 * u.mM, ci * u.M, z, T * u.K, None, u)
        v.prove("same_physical_value_any_concentration_units", v.eq(si(v, withu, u.volt), plain, rel=1e-9, abs_=1e-12))
        for label, uarg in (("constants_only", None), ("constants_and_units", u)):
            withc = v.call(fn, co * 1e3 * u.mM, ci * u.M, z, T * u.K, default_constants, uarg)
            # the constants object of the package carries an older CODATA set: the expected value uses ITS R and F (in J/K/mol and C/mol)
            Rp, Fp = si(v, default_constants.molar_gas_constant, u.joule / u.kelvin / u.mol), si(v, default_constants.Faraday_constant, u.coulomb / u.mol)
            v.prove(label + ".same_physical_value", v.eq(si(v, withc, u.volt), Rp * T / (z * Fp) * math.log(co / ci), rel=1e-9, abs_=1e-12))


@harness("C19", "electrical_mobility_from_D", functions=["chempy.einstein_smoluchowski:electrical_mobility_from_D"], div_mode="assume", samples=25)
def _(v):
    from chempy.einstein_smoluchowski import electrical_mobility_from_D as fn
    D, T = v.real("D", lo=1e-11, hi=1e-7), v.real("T", lo=250, hi=400)
    z = v.choice("z", [1, 2, -1, -2, 3])
    plain = v.call(fn, D, z, T)
    kB, e = F(1.38064852e-23), F(1.60217662e-19)
    v.prove_identity("formula", plain, D * z * e / (kB * T), rel=1e-12)
    if v.symbolic:
        u, table = units_env(v)
        du = table.generic("du", (2, 0, -1, 0, 0, 0, 0))      # any diffusivity unit
        withu = v.call(fn, (D / table.scale["du"]) * du, z, T * u.K, None, u)
        v.prove("dimension_is_mobility", dimv(withu) == (0, -1, 2, 1, 0, 0, 0))
        v.prove_identity("same_physical_value_any_diffusivity_unit", si(v, withu), plain)
    else:
        from chempy.units import default_units as u
        withu = v.call(fn, D * 1e4 * u.cm ** 2 / u.s, z, T * u.K, None, u)
        v.prove("same_physical_value_any_diffusivity_unit", v.eq(si(v, withu, u.m ** 2 / u.volt / u.s), plain, rel=1e-9))


@harness("C19", "water_density.reference_temperature", functions=["chempy.properties.water_density_tanaka_2001:water_density"], div_mode="assume", samples=40)
def _(v):
    """the optional T0 (temperature that counts as 0 degC, e.g. T0=0 for input in Celsius): value and range warning depend on T - T0 only"""
    from chempy.properties.water_density_tanaka_2001 import water_density
    T0 = v.real("T0", lo=-10, hi=400)
    t = v.real("t_above_T0", lo=-30, hi=80)
    if not v.symbolic:
        t = v.choice("t_edge", [t, 0, 40, -0.01, 40.01, 0.01, 39.99])
        T0 = v.choice("T0_choice", [T0, 0, 273.15])
    warn = v.bool("warn")
    r = v.call(water_density, T0 + t, T0=T0, warn=warn)
    v.prove_identity("value_depends_on_T_minus_T0", r, tanaka(t + F(273.15), v), rel=1e-9)
    if v.symbolic:
        v.prove("warned_iff_outside_0_to_40_above_T0", SP.iff(_warned(v), SP.conj([warn, SP.disj([t < 0, t > 40])])))
    else:
        # float: (T0 + t) - T0 may differ from t in the last bit exactly at the edges
        if abs(t) > 1e-9 and abs(t - 40) > 1e-9:
            v.prove("warned_iff_outside_0_to_40_above_T0", _warned(v) == (bool(warn) and (t < 0 or t > 40)))


@harness("C19", "water_viscosity.reference_viscosity", functions=["chempy.properties.water_viscosity_korson_1969:water_viscosity"], div_mode="assume", samples=40)
def _(v):
    """'reproduce their published anchor values' and 'the same physical value whether its inputs are plain numbers in the documented units or
    quantities expressed in any compatible units', for the second documented parameter of the viscosity correlation, eta20 (the viscosity at
    20 degC): Korson's equation (5) gives the RATIO eta(T)/eta(20 degC), so the value is eta20 times the published ratio for every reference
    viscosity in whatever unit it is written (cP, Pa s, any number), at 20 degC it is eta20 itself, and the range warning depends on the
    temperature alone.  eta20 is given in its documented (second) position here and by name in the last obligation: both are the same call"""
    from chempy.properties.water_viscosity_korson_1969 import water_viscosity as fn
    T = v.real("T", lo=250, hi=400)
    eta20 = v.real("eta20", lo=1e-4, hi=10)
    if not v.symbolic:
        T = v.choice("T_edge", [T, 273.15, 373.15, 273.14, 373.16, 293.15])
        eta20 = v.choice("eta20_choice", [eta20, 1.0020e-3, 1.0])         # Pa s; 'relative to the value at 20 degC'
    warn = v.bool("warn")
    ratio = korson(T, v) / F(1.0020)
    r = v.call(fn, T, eta20, warn=warn)
    v.prove_identity("value_is_eta20_times_the_published_ratio", r, eta20 * ratio, rel=1e-9)
    outside = SP.disj([T < 273.15, T > 373.15])
    v.prove("warned_iff_temperature_outside_range_and_enabled", SP.iff(_warned(v), SP.conj([warn, outside])))
    n = len(_range_warnings(v))
    v.prove_identity("anchor_at_20C_is_eta20", v.call(fn, F(293.15), eta20), eta20, rel=1e-12)
    v.prove("anchor_is_inside_the_range", len(_range_warnings(v)) == n)
    u, table = units_env(v)
    if v.symbolic:
        vu = table.generic("vu", (-1, 1, -1, 0, 0, 0, 0))        # any viscosity unit
        withu = v.call(fn, T * u.K, (eta20 / table.scale["vu"]) * vu, u, False)
        v.prove("with_units.dimension_is_viscosity", dimv(withu) == (-1, 1, -1, 0, 0, 0, 0))
        v.prove_identity("with_units.same_physical_value_any_viscosity_unit", si(v, withu), eta20 * ratio)
    else:
        withu = v.call(fn, T * u.K, (eta20 * 10) * u.gram / u.cm / u.second, u, False)      # eta20 Pa s written in g/(cm s) ('g vs kg')
        v.prove("with_units.same_physical_value_any_viscosity_unit", v.eq(si(v, withu, u.pascal * u.second), float(eta20) * float(ratio), rel=1e-9))
    v.prove_identity("by_name_is_the_same_call", v.call(fn, T, eta20=eta20, warn=False), r, rel=1e-12)


# ---------------------------------------------------------------------------- salting-out of gases (Schumpe 1993)
@harness("C19", "lg_solubility_ratio",functions=["chempy.properties.gas_sol_electrolytes_schumpe_1993:lg_solubility_ratio"], div_mode="assume", samples=25)
def _(v):
    """'salting-out of gases': lg(c0/c) = sum_i (h_gas + h_ion_i) c_i for every set of concentrations; with units each concentration may be in
    its own compatible unit and the result is the same pure number; the fluoride warning is emitted iff fluoride is among the electrolytes
    (and warnings are asked for).  The SUM is what is proved here: the two parameters are read from the module's own tables (the published tables
    of Schumpe 1993 are not at hand to be typed in; what can be said about the numbers without them is in lg_solubility_ratio.parameters)"""
    from chempy.properties import gas_sol_electrolytes_schumpe_1993 as S
    fn = S.lg_solubility_ratio
    ions = v.choice("ions", [("Na+", "Cl-"), ("K+", "SO4-2", "H+"), ("Mg+2", "F-"), ("Na+",)])
    gas = v.choice("gas", ["O2", "CO2", "H2", "N2O"])
    cs = [v.real("c%d" % i, lo=0, hi=5) for i in range(len(ions))]
    plain = v.call(fn, dict(zip(ions, cs)), gas)
    want = sum((F(S.p_gas_rM[gas]) + F(S.p_ion_rM[k])) * c for k, c in zip(ions, cs))
    # the two table parameters are added in floating point before they meet the concentration: equal up to that rounding (1e-15 relative)
    v.prove("formula", abs(plain - want) <= F(1e-14) * sum(cs)) if v.symbolic else v.prove("formula", v.eq(plain, float(want), rel=1e-12, abs_=1e-15))
    n_warn = len([e for e in v.events("warning")])
    v.prove("fluoride_warning_iff_fluoride", (n_warn >= 1) == ("F-" in ions))
    before = len(v.events("warning"))
    v.call(fn, dict(zip(ions, cs)), gas, None, False)
    v.prove("no_warning_when_not_asked_for", len(v.events("warning")) == before)
    if v.symbolic:
        u, table = units_env(v)
        cus = [table.generic("cu%d" % i, (-3, 0, 0, 0, 0, 0, 1)) for i in range(len(ions))]
        withu = v.call(fn, {k: (c * 1000 / table.scale["cu%d" % i]) * cus[i] for i, (k, c) in enumerate(zip(ions, cs))}, gas, u, False)   # c mol/dm3 in any unit
        v.prove("pure_number", dimv(withu) == (0, 0, 0, 0, 0, 0, 0))
        v.prove("same_value_any_concentration_units", abs(si(v, withu) - want) <= F(1e-14) * sum(cs))
    else:
        from chempy.units import default_units as u
        unit_cycle = [u.molar, u.mol / u.m3, u.mmol / u.cm3]
        fac = [1, 1000, 1]
        withu = v.call(fn, {k: (c * fac[i % 3]) * unit_cycle[i % 3] for i, (k, c) in enumerate(zip(ions, cs))}, gas, u, False)
        v.prove("same_value_any_concentration_units", v.eq(si(v, withu, u.dimensionless), float(want), rel=1e-9, abs_=1e-12))


@harness("C19", "lg_solubility_ratio.parameters", functions=["chempy.properties.gas_sol_electrolytes_schumpe_1993:lg_solubility_ratio"], kind="data")
def _(v):
    """'reproduce their published anchor values' for the salting-out model, as far as it can be said without the paper's tables: (1) the model's
    reference points -- the parameters are only determined up to a shift between gases and ions and between cations and anions, and the paper fixes
    them by h(H+) = 0 and h(O2) = 0; (2) the abstract's coverage '20 cations and 19 anions on the solubilities of 15 gases' (two organic anions
    may be left out); (3) measured Sechenov constants that the model was fitted to: oxygen in NaCl 0.14 dm3/mol and in KOH 0.175 dm3/mol
    (Davis, Horvath, Tobias 1967) at 25 C, a band of +-0.02 dm3/mol; through the function, not through the tables"""
    from chempy.properties import gas_sol_electrolytes_schumpe_1993 as S
    fn = S.lg_solubility_ratio

    def lg(salt, gas):
        try:
            return float(fn(salt, gas, None, False))
        except Exception as ex:
            return repr(ex)[:80]
    # lg(c0/c) of 1 M HX in oxygen minus that of 1 M X alone is h(H+) + h(O2) = 0, for any X
    r = [(lg({"H+": 1.0, x: 1.0}, "O2"), lg({x: 1.0}, "O2")) for x in ("Cl-", "NO3-", "SO4-2")]
    v.prove("reference_points_H+_and_O2_are_zero", all(isinstance(a, float) and isinstance(b, float) and abs(a - b) < 1e-12 for a, b in r) and lg({"H+": 1.0}, "O2") == 0.0, detail=repr(r))
    try:
        ions, gases = list(S.p_ion_rM), list(S.p_gas_rM)
        cations, anions = [k for k in ions if "+" in k], [k for k in ions if k.endswith("-") or "-" in k[-2:]]
        ok = len(gases) == 15 and len(cations) == 20 and 17 <= len(anions) <= 19 and len(cations) + len(anions) == len(ions)
        ok = ok and all(isinstance(x, float) and abs(x) < 0.3 for x in list(S.p_ion_rM.values()) + list(S.p_gas_rM.values()))
        det = repr((len(gases), len(cations), len(anions)))
    except Exception as ex:
        ok, det = False, repr(ex)[:200]
    v.prove("coverage_of_the_published_tables", ok, detail=det)
    a, b = lg({"Na+": 1.0, "Cl-": 1.0}, "O2"), lg({"K+": 1.0, "OH-": 1.0}, "O2")
    v.prove("oxygen_in_1M_NaCl", isinstance(a, float) and abs(a - 0.14) < 0.02, detail=repr(a))
    v.prove("oxygen_in_1M_KOH", isinstance(b, float) and abs(b - 0.175) < 0.02, detail=repr(b))


# ---------------------------------------------------------------------------- density from concentration (inverse helper), any forward correlation
def _fixed_point_iteration_invariant(relation, atol, maxiter, num=lambda x: x):
    """the loop invariant of the fixed-point iteration rho <- rho_cb(conc*M/rho), stated over the ROLES of the loop-carried variables, not over
    what the code calls them (a renaming of locals, or a for-loop over the evaluation number instead of a counter bumped by hand, is no change of
    behaviour).  The roles are read off the state on entry (env["@carried"]: the names bound before the loop and rebound in it):
      step     the carried number that is infinite on entry ('no step taken yet' exceeds every tolerance); afterwards the last change of the density
      density  the other carried non-integer number (the current iterate; finite on entry)
      count    evaluations of the forward correlation so far: the index the engine hands over for a for-loop; for a while-loop the one carried
               integer, counted from its value on entry
    Invariant at the loop head: either nothing has been evaluated yet (count = 0, step above the tolerance), or 1 <= count <= maxiter (so at most
    maxiter + 1 evaluations in all) and density = rho_cb(conc*M/(density - step)), i.e. `relation(density, density - step)`.
    A loop whose carried variables cannot be given these roles raises here, which the engine reports as 'the loop invariant does not fit the loop
    as written' (undecided), never as a behaviour of the code.  A wrong guess of the roles cannot prove anything false: init/pres are obligations of
    their own and the final obligation of the harness only takes `witness` (the step at the loop head) as the witness of an existential.
    Returns (inv, shapes_by_kind, witness); `num` maps a carried value to the plain number it stands for (si_value with units)."""
    from pyvc.qmodel import Quantity
    from pyvc.sym import fresh_name
    import z3
    roles, witness = {}, []

    def is_integer(x):
        return (isinstance(x, int) and not isinstance(x, bool)) or (isinstance(x, Sym) and x.kind == "int")

    def is_number(x):
        return isinstance(x, float) or (isinstance(x, Sym) and x.kind == "real")

    def find_roles(env, i):
        entry = {n: env[n] for n in env["@carried"]}
        numbers = {n: num(x) for n, x in entry.items() if not is_integer(x) and is_number(num(x))}
        steps = [n for n, x in numbers.items() if isinstance(x, float) and math.isinf(x)]
        densities = [n for n, x in numbers.items() if not (isinstance(x, float) and (math.isinf(x) or math.isnan(x)))]
        if len(steps) != 1 or len(densities) != 1 or len(numbers) != 2:
            raise ValueError("fixed-point iteration: expected one carried iterate and one carried step that is infinite on entry, found %r" % (sorted(entry),))
        roles["step"], roles["density"] = steps[0], densities[0]
        if i is None:                            # while-loop: the evaluations are counted by the code
            counters = [n for n, x in entry.items() if is_integer(x)]
            if len(counters) != 1:
                raise ValueError("fixed-point iteration: expected one carried integer counting the evaluations, found %r" % (counters,))
            roles["count"], roles["count0"] = counters[0], entry[counters[0]]

    def inv(env, i, seq):
        if not roles:
            find_roles(env, i)
        count = i if i is not None else env[roles["count"]] - roles["count0"]
        rho, d = num(env[roles["density"]]), num(env[roles["step"]])
        if isinstance(d, float):                 # the state on entry: an infinite step exceeds every tolerance
            return d == float("inf") and count == 0
        witness[:] = [d]                         # ghost: the last step of the iteration, used as the witness of the existential in the harness
        later = (count >= 1) & (count <= maxiter) & (rho - d != 0) & relation(rho, rho - d)
        return ((count == 0) & (atol < abs(d))) | later

    def shapes_by_kind(name, old):
        # a loop-carried quantity stays a quantity in the units it has on entry (kg/m3), of any magnitude; everything else: the engine's default
        if isinstance(old, Quantity):
            return Quantity(Sym(z3.Real(fresh_name(name))), old.u, old.t)
        return None
    return inv, shapes_by_kind, witness


@harness("C19", "density_from_concentration", functions=["chempy.properties.sulfuric_acid_density_myhre_1998:density_from_concentration"], div_mode="assume", samples=0)
def _(v):
    """'the inverse helpers (… density from concentration) invert the forward ones', for ANY forward correlation rho_cb (an uninterpreted function)
    and any number of iterations (loop invariant): whenever a density is returned, it is the forward correlation evaluated at the mass fraction
    conc*M/rho' of a density rho' that differs from it by at most atol -- a fixed point of rho = rho_cb(conc*M/rho) within the tolerance; the
    callback is asked about the caller's temperature, never about another one; what cannot be brought to that is refused with NoConvergence"""
    import z3
    from pyvc.sym import Sym, to_z3, wrap
    from chempy.properties.sulfuric_acid_density_myhre_1998 import density_from_concentration as g
    from chempy.util import NoConvergence
    conc, T, M, atol = v.real("conc", lo=0), v.real("T", lo=200), v.real("M", lo=1e-3), v.real("atol", lo=1e-9)
    maxiter = v.int("maxiter", lo=1, hi=1000)
    f = z3.Function("rho_forward", z3.RealSort(), z3.RealSort(), z3.RealSort())
    asked = []

    def rho_cb(w, T_, units=None, warn=None):
        asked.append((T_, units, warn))
        return Sym(f(to_z3(w), to_z3(T_)))

    # the loop state by role (iterate / last step / number of evaluations), whatever the code calls it and whether it counts by hand or with a for-loop
    inv, _, witness = _fixed_point_iteration_invariant(lambda rho, prev: wrap(to_z3(rho) == f(to_z3(conc * M / prev), to_z3(T))), atol, maxiter)
    v.invariant(g, 0, inv)
    out = v.run(g, conc, T, M, rho_cb, None, atol, maxiter)
    if out.returned:
        r = out.value
        step = witness[0]                        # rho' = r - step
        v.prove("returned_density_is_a_fixed_point_within_atol", (abs(step) <= atol) & (r - step != 0) & wrap(to_z3(r) == f(to_z3(conc * M / (r - step)), to_z3(T))))
    else:
        v.prove("only_refusal_is_NoConvergence", out.raised(NoConvergence))
    # the temperature by VALUE (a copy or float(T) of it is the caller's temperature too); no units object, because the caller gave none; the
    # caller did not ask for warnings: the flag is either handed on as False or left to the callback (None here) -- never switched on
    v.prove("callback_asked_about_the_callers_temperature_without_units",
            SP.conj([t_ == T for t_, un, wa in asked] + [un is None and (wa is None or wa is False) for t_, un, wa in asked]))


@harness("C19", "density_from_concentration.units", functions=["chempy.properties.sulfuric_acid_density_myhre_1998:density_from_concentration"], div_mode="assume", samples=0)
def _(v):
    """the same clause with a units object and the inputs in scaled units (the quantifier's 'M vs mM, g vs kg'): the concentration in mol/dm3, the
    molar mass in g/mol, the tolerance in g/cm3, the temperature in kelvin; the forward correlation is again uninterpreted, is told the PHYSICAL
    mass fraction conc*M/rho (a pure number) and answers in kg/m3.  Whenever a density is returned it has the dimension of a density and is, in SI,
    a fixed point of the forward correlation within the tolerance; the callback gets the caller's temperature and the caller's units object"""
    import z3
    from pyvc.sym import Sym, to_z3, wrap
    from pyvc.qmodel import si_value
    from chempy.properties.sulfuric_acid_density_myhre_1998 import density_from_concentration as g
    from chempy.util import NoConvergence
    conc, T, M, atol = v.real("conc", lo=0), v.real("T", lo=200), v.real("M", lo=1e-3), v.real("atol", lo=1e-9)   # SI: mol/m3, K, kg/mol, kg/m3
    maxiter = v.int("maxiter", lo=1, hi=1000)
    u, table = units_env(v)
    f = z3.Function("rho_forward", z3.RealSort(), z3.RealSort(), z3.RealSort())
    asked, fractions_with_a_dimension = [], []
    Tq = T * u.K

    def rho_cb(w, T_, units=None, warn=None):
        asked.append((T_, units, warn))
        if dimv(w) != (0,) * 7:
            fractions_with_a_dimension.append(w)
        return Sym(f(to_z3(si_value(w)), to_z3(si_value(T_)))) * u.kg / u.m ** 3

    # the loop state by role, in SI; the loop-carried quantities keep the units they have on entry (kg/m3) and may have any magnitude
    inv, same_units, witness = _fixed_point_iteration_invariant(lambda rho, prev: wrap(to_z3(rho) == f(to_z3(conc * M / prev), to_z3(T))), atol, maxiter, num=si_value)
    v.invariant(g, 0, inv, shapes=same_units)
    out = v.run(g, (conc / 1000) * u.molar, Tq, (M * 1000) * u.g / u.mol, rho_cb, u, (atol / 1000) * u.g / u.cm ** 3, maxiter)
    if out.returned:
        r, step = si_value(out.value), witness[0]
        v.prove("returned_density_has_the_dimension_of_a_density", dimv(out.value) == (-3, 1, 0, 0, 0, 0, 0))
        v.prove("returned_density_is_a_fixed_point_within_atol", (abs(step) <= atol) & (r - step != 0) & wrap(to_z3(r) == f(to_z3(conc * M / (r - step)), to_z3(T))))
    else:
        v.prove("only_refusal_is_NoConvergence", out.raised(NoConvergence))
    v.prove("callback_asked_about_the_callers_temperature_with_the_callers_units",
            SP.conj([si_value(t_) == T for t_, un, wa in asked] + [dimv(t_) == (0, 0, 0, 0, 1, 0, 0) and un is u and (wa is None or wa is False) for t_, un, wa in asked]))
    v.prove("mass_fraction_is_a_pure_number", not fractions_with_a_dimension)


@harness("C19", "density_from_concentration.constant_correlation", functions=["chempy.properties.sulfuric_acid_density_myhre_1998:density_from_concentration"],
         div_mode="assume", samples=20)
def _(v):
    """liveness of 'the inverse helpers invert the forward ones' (the invariant harness only says what a RETURNED density is; an implementation that
    always refuses would satisfy it): for a forward correlation that is constant, rho_cb = c, the fixed point is c and the iteration has arrived
    after at most two evaluations (the second step is exactly 0, below every positive tolerance), so with room for two iterations (maxiter >= 2,
    or the documented default of 10) the helper must RETURN c; it must have asked the correlation at least once"""
    from chempy.properties.sulfuric_acid_density_myhre_1998 import density_from_concentration as g
    conc, T, M, atol = v.real("conc", lo=0, hi=2e4), v.real("T", lo=200, hi=400), v.real("M", lo=1e-3, hi=1), v.real("atol", lo=1e-9, hi=1)
    c = v.real("c", lo=1, hi=3000)
    maxiter = v.choice("maxiter", [2, 3, 10, None])
    asked = []

    def rho_cb(w, T_, units=None, warn=None):
        asked.append(T_)
        return c
    out = v.run(g, conc, T, M, rho_cb, None, atol, maxiter) if maxiter is not None else v.run(g, conc, T, M, rho_cb, None, atol)
    v.prove("returns_the_constant", out.returned and out.value == c, detail=repr(out.exc))
    v.prove("correlation_was_asked", len(asked) >= 1)


@harness("C19", "density_from_concentration.inverts_sulfuric_acid_density", functions=["chempy.properties.sulfuric_acid_density_myhre_1998:density_from_concentration",
                                                                                     "chempy.properties.sulfuric_acid_density_myhre_1998:sulfuric_acid_density"], kind="data")
def _(v):
    """'the inverse helpers (... density from concentration) invert the forward ones' with the documented defaults (forward correlation
    sulfuric_acid_density, molar mass of H2SO4, tolerance 1e-3 kg/m3, 10 iterations): the concentration that belongs to mass fraction w at
    temperature T is c = w*rho(w, T)/M with M = 2*1.00794 + 32.066 + 4*15.9994 g/mol = 98.07948 g/mol (hand-added standard atomic weights), and the
    helper gives rho(w, T) back.  Tolerance: the last step of the iteration is below 1e-3 kg/m3 and the iteration contracts by a factor
    |d rho/d w| * w/rho of about 0.5 or less over 0.1 <= w <= 0.9 (handbook densities: 1611 -> 1727 kg/m3 from 70 to 80 %, 0.7*1160/1611 = 0.5),
    so the answer is within about 1e-3 kg/m3 of the fixed point; 1e-2 kg/m3 (1e-5 relative) is asked.
    The same with a units object and the concentration in mol/dm3 ('M vs mM'), and nothing in the documented range gives a warning when
    warnings are not asked for"""
    import warnings
    from chempy.properties.sulfuric_acid_density_myhre_1998 import density_from_concentration as g, sulfuric_acid_density as f
    from chempy.units import default_units as u, to_unitless
    M_H2SO4 = 98.07948e-3    # kg/mol
    bad, bad_u, warned = [], [], []
    # the default of 10 iterations is enough up to w = 0.3 (start 1100 kg/m3, error below 150 kg/m3, contraction 0.25 or better: 150*0.25**9 < 1e-3);
    # more concentrated acid is documented to need a larger maxiter ('NoConvergence when maxiter is exceeded' is no defect), 100 is given there
    # Up to w = 0.6 only: there the first iterate c*M/1100 = w*rho/1100 <= 0.6*1516/1100 = 0.83 is still a mass fraction inside the documented
    # range of the forward correlation; for w >= 0.8 the first iterate is a 'mass fraction' above 1 and the helper is at the mercy of the polynomial
    # outside its range (on the pinned tree: NoConvergence for every maxiter) -- what the helper owes there is not decided by the property
    for w in (0.1, 0.15, 0.2, 0.25, 0.3, 0.4, 0.5, 0.6):
        kw = {} if w <= 0.3 else {"maxiter": 100}
        for T in (273.15, 283.15, 293.15, 298.15):
            with warnings.catch_warnings(record=True) as ws:
                warnings.simplefilter("always")
                try:
                    rho = float(f(w, T))
                    c = w * rho / M_H2SO4
                    got = float(g(c, T, **kw))
                    if not abs(got - rho) < 1e-2:
                        bad.append((w, T, rho, got))
                except Exception as ex:
                    bad.append((w, T, repr(ex)[:80]))
                try:
                    gq = g((c / 1000) * u.molar, T * u.K, units=u, **kw)
                    got = float(to_unitless(gq, u.kg / u.m ** 3))
                    if not abs(got - rho) < 1e-2:
                        bad_u.append((w, T, rho, got))
                except Exception as ex:
                    bad_u.append((w, T, repr(ex)[:80]))
            warned.extend(str(x.message) for x in ws)
    v.prove("density_of_the_concentration_that_belongs_to_a_mass_fraction", not bad, detail=repr(bad[:3]))
    v.prove("the_same_with_units_and_molar_concentration", not bad_u, detail=repr(bad_u[:3]))
    v.prove("silent_in_the_documented_range", not warned, detail=repr(warned[:3]))


@harness("C19", "nernst_potential.arrays_and_symbols", functions=["chempy.electrochemistry.nernst:nernst_potential"], kind="data")
def _(v):
    """the Nernst relation for the input types it documents besides plain numbers: numpy arrays of concentrations with backend=numpy (element-wise,
    same values as the scalar calls), quantity arrays, and sympy symbols with backend=sympy (a symbolic answer that evaluates to the number)"""
    import math
    import numpy as np
    import sympy
    from chempy.electrochemistry.nernst import nernst_potential as fn
    from chempy.units import default_units as u, to_unitless
    co, ci = np.array([145.0, 4.0, 12.0]), np.array([15.0, 140.0, 12.0])
    want = [8.3144598 * 310 / (1 * 96485.33289) * math.log(a / b) for a, b in zip(co, ci)]
    try:
        got = fn(co, ci, 1, 310.0, backend=np)
        ok, det = np.allclose(got, want, rtol=1e-12, atol=1e-18), repr(got)
    except Exception as ex:
        ok, det = False, repr(ex)[:200]
    v.prove("numpy_arrays_element_wise", ok, detail=det)
    try:
        gq = fn(co * u.mM, ci * 1e-3 * u.M, 1, 310.0 * u.K, None, u, backend=np)
        ok, det = np.allclose(np.asarray(to_unitless(gq, u.volt), dtype=float), want, rtol=1e-9, atol=1e-15), repr(gq)
    except Exception as ex:
        ok, det = False, repr(ex)[:200]
    v.prove("quantity_arrays_element_wise", ok, detail=det)
    try:
        a, b, T = sympy.symbols("c_out c_in T")
        ex_ = fn(a, b, 2, T, backend=sympy)
        val = float(ex_.subs({a: 145, b: 15, T: 310}))
        ok, det = abs(val - 8.3144598 * 310 / (2 * 96485.33289) * math.log(145 / 15)) < 1e-12, str(ex_)
    except Exception as ex:
        ok, det = False, repr(ex)[:200]
    v.prove("sympy_symbols_give_a_symbolic_answer", ok, detail=det)


# ---------------------------------------------------------------------------- sulfuric acid density (Myhre 1998): units of the mass fraction, shape
@harness("C19", "sulfuric_acid_density", functions=["chempy.properties.sulfuric_acid_density_myhre_1998:sulfuric_acid_density"], kind="data")
def _(v):
    """(a) 'the same physical value whether its inputs are plain numbers in the documented units or quantities expressed in any compatible units':
    the mass fraction given as 50 percent or 500 g/kg is the mass fraction 0.5, with and without a units object, and the range warning is
    decided on that value; a quantity that is no pure number is refused. (b) 'qualitative shape': the density of the acid falls with rising
    temperature at every composition of the documented range 0.1..0.9, 0..50 C (a physical fact, not a transcription of the code).
    (c) 'published anchor values': the handbook densities at 0 C and 20 C, with no range warning for these inputs inside the range"""
    import warnings
    import numpy as np
    from chempy.properties.sulfuric_acid_density_myhre_1998 import sulfuric_acid_density as f
    from chempy.units import default_units as u, to_unitless
    bad = []
    with warnings.catch_warnings(record=True) as ws:
        warnings.simplefilter("always")
        try:
            plain = float(f(0.5, 293.0))
        except Exception as ex:
            plain, bad = float("nan"), [("plain", repr(ex)[:80])]
    for label, w in (("percent", 50 * u.percent), ("g_per_kg", 500 * u.g / u.kg), ("pure_number_quantity", 0.5 * u.dimensionless)):
        with warnings.catch_warnings(record=True) as ws:
            warnings.simplefilter("always")
            try:
                got = float(to_unitless(f(w, 293.0 * u.K, units=u), u.kg / u.m ** 3))
                if abs(got / plain - 1) > 1e-12 or ws:
                    bad.append((label, got, [str(x.message) for x in ws]))
            except Exception as ex:
                bad.append((label, repr(ex)[:80]))
    v.prove("mass_fraction_in_scaled_units", not bad and 1390 < plain < 1400, detail=repr(bad))
    try:
        f(0.5 * u.kg, 293.0 * u.K, units=u)
        ok = False
    except Exception:
        ok = True
    v.prove("mass_fraction_with_a_dimension_refused", ok)
    # the temperature (20 C) is inside its range in all these calls, so a warning, whatever its wording, is the one about the mass fraction:
    # emitted for 5 % and 950 g/kg (outside 0.1..0.9), not for 11 % and 890 g/kg (inside), and never when warnings are switched off
    wrong = []
    for w, kw, expect in ((5 * u.percent, {}, True), (950 * u.g / u.kg, {}, True), (11 * u.percent, {}, False), (890 * u.g / u.kg, {}, False),
                          (5 * u.percent, {"warn": False}, False), (0.95, {"warn": False}, False)):
        with warnings.catch_warnings(record=True) as ws:
            warnings.simplefilter("always")
            try:
                f(w, 293.0 * u.K, units=u, **kw)
                if (len(ws) >= 1) != expect:
                    wrong.append((str(w), kw, [str(x.message) for x in ws]))
            except Exception as ex:
                wrong.append((str(w), kw, repr(ex)[:80]))
    v.prove("range_warning_decided_on_the_value", not wrong, detail=repr(wrong[:3]))
    # (c) 'reproduce their published anchor values': the handbook table of the density of aqueous sulfuric acid (International Critical Tables, as
    # reprinted in Perry's / the CRC handbook; g/cm3 at mass percent), typed from the handbook, not from the code.  The correlation is a fit to the
    # authors' own measurements, the two agree to about 0.1 %: 1e-3 is asked at 0 C and 3e-3 at 20 C.  (The handbook column for 50 C -- 1371.9 at
    # 50 %, 1782.9 at 90 % -- is NOT reproduced, see falls_with_temperature below and the known finding F-C19e.)
    handbook = {273.15: (1e-3, {0.1: 1.0735, 0.5: 1.4110, 0.9: 1.8361}),
                293.15: (3e-3, {0.1: 1.0661, 0.2: 1.1394, 0.3: 1.2185, 0.4: 1.3028, 0.5: 1.3951, 0.6: 1.4983, 0.7: 1.6105, 0.8: 1.7272, 0.9: 1.8144})}
    for T, (tol, table) in sorted(handbook.items()):
        off = []
        with warnings.catch_warnings(record=True) as ws:
            warnings.simplefilter("always")
            for w, gcm3 in sorted(table.items()):
                try:
                    got = float(f(w, T))
                    if not abs(got / (1000 * gcm3) - 1) < tol:
                        off.append((w, got, 1000 * gcm3))
                except Exception as ex:
                    off.append((w, repr(ex)[:80]))
        v.prove("handbook_density_at_%d_C" % round(T - 273.15), not off and not ws, detail=repr((off[:3], [str(x.message) for x in ws][:2])))
    Ts = np.linspace(273.15, 323.15, 11)
    for w in (0.1, 0.3, 0.5, 0.7, 0.9):
        with warnings.catch_warnings():
            warnings.simplefilter("ignore")
            try:
                rho = [float(f(w, T)) for T in Ts]
            except Exception as ex:
                v.prove("falls_with_temperature.w_%02d" % round(w * 10), False, detail=repr(ex)[:200])
                continue
        rising = [(round(float(Ts[i] - 273.15)), round(rho[i], 1), round(rho[i + 1], 1)) for i in range(len(rho) - 1) if not rho[i + 1] < rho[i]]
        v.prove("falls_with_temperature.w_%02d" % round(w * 10), not rising, detail=repr(rising[:3]))


# ---------------------------------------------------------------------------- documented positions of the inputs; grids of temperatures as arrays
def _tanaka_f(t):
    """Tanaka 2001 eq. (1), t in degC -> kg/m3 (floats; the constants as in `tanaka` above)"""
    return 999.974950 * (1 - ((t - 3.983035) ** 2 * (t + 301.797)) / (522528.9 * (t + 69.34881)))


def _korson_ratio_f(t):
    """Korson 1969 eq. (5), t in degC -> eta(t)/eta(20 degC)"""
    return 10 ** ((1.1709 * (20 - t) - 0.001827 * (t - 20) ** 2) / (t + 89.93))


def _holz_f(T):
    """Holz 2000 eq. (1), T in K -> m2/s"""
    return 1.635e-8 * (T / 215.05 - 1) ** 2.063


def _bradley_pitzer_f(T, P):
    """Bradley & Pitzer 1979 eqs. (1)-(4), T in K, P in bar -> relative permittivity (U1..U9 as in coefficients_and_anchors.bradley_pitzer_U)"""
    U1, U2, U3, U4, U5, U6, U7, U8, U9 = 3.4279e2, -5.0866e-3, 9.4690e-7, -2.0525, 3.1159e3, -1.8289e2, -8.0325e3, 4.2142e6, 2.1417
    B = U7 + U8 / T + U9 * T
    C = U4 + U5 / (U6 + T)
    return U1 * math.exp(U2 * T + U3 * T * T) + C * math.log((B + P) / (B + 1000))


def _observe(thunk):
    """(value or None, text of the exception or None, range warnings) of one call of the code under test"""
    import warnings
    with warnings.catch_warnings(record=True) as ws:
        warnings.simplefilter("always")
        try:
            val, exc = thunk(), None
        except Exception as ex:
            val, exc = None, repr(ex)[:160]
    return val, exc, [str(x.message) for x in ws if " encountered in " not in str(x.message)]


@harness("C19", "documented_positions", functions=["chempy.properties.water_density_tanaka_2001:water_density", "chempy.properties.water_viscosity_korson_1969:water_viscosity",
                                                   "chempy.properties.water_diffusivity_holz_2000:water_self_diffusion_coefficient",
                                                   "chempy.properties.water_permittivity_bradley_pitzer_1979:water_permittivity",
                                                   "chempy.properties.sulfuric_acid_density_myhre_1998:sulfuric_acid_density", "chempy.henry:Henry_H_at_T"], kind="data")
def _(v):
    """'whether its inputs are plain numbers in the documented units or quantities expressed in any compatible units': the inputs in the ORDER in
    which each relation documents them (temperature first -- mass fraction first for the acid --, then the second physical input: T0 / eta20 / P,
    then the units object), without naming them.  Every call below lies inside the validity range: the hand-computed value of the published
    equation, in SI where a units object is given, and no range warning.  (nernst_potential, electrical_mobility_from_D, lg_solubility_ratio and
    density_from_concentration are called by position in their own harnesses.)"""
    from chempy.properties.water_density_tanaka_2001 import water_density
    from chempy.properties.water_viscosity_korson_1969 import water_viscosity
    from chempy.properties.water_diffusivity_holz_2000 import water_self_diffusion_coefficient
    from chempy.properties.water_permittivity_bradley_pitzer_1979 import water_permittivity
    from chempy.properties.sulfuric_acid_density_myhre_1998 import sulfuric_acid_density
    from chempy.henry import Henry_H_at_T
    from chempy.units import default_units as u, to_unitless
    kgm3, Pas = u.kg / u.m ** 3, u.pascal * u.second
    H25 = 1.2e-3 * math.exp(1800.0 * (1 / 310.0 - 1 / 288.15))      # van 't Hoff with the reference temperature 288.15 K
    cases = [
        # temperature in degC with T0 = 0 (the documented use of T0), and in kelvin with T0 and units
        ("water_density.T_T0", lambda: water_density(4.0, 0.0), None, _tanaka_f(4.0), 1e-12),
        ("water_density.T_T0_units", lambda: water_density(283.15 * u.K, 273.15 * u.K, u), kgm3, _tanaka_f(10.0), 1e-12),
        # reference viscosity in Pa s / as the pure number 1 ('relative viscosity') / in poise with units; units alone in the third position
        ("water_viscosity.T_eta20_in_Pa_s", lambda: water_viscosity(298.15, 1.0020e-3), None, 1.0020e-3 * _korson_ratio_f(25.0), 1e-12),
        ("water_viscosity.T_eta20_relative", lambda: water_viscosity(283.15, 1.0), None, _korson_ratio_f(10.0), 1e-12),
        ("water_viscosity.T_eta20_units", lambda: water_viscosity(298.15 * u.K, 1.0020e-2 * u.poise, u), Pas, 1.0020e-3 * _korson_ratio_f(25.0), 1e-9),
        ("water_viscosity.T_none_units", lambda: water_viscosity(298.15 * u.K, None, u), Pas, 1.0020e-3 * _korson_ratio_f(25.0), 1e-9),
        ("water_self_diffusion_coefficient.T_units", lambda: water_self_diffusion_coefficient(298.15 * u.K, u), u.m ** 2 / u.s, _holz_f(298.15), 1e-9),
        ("water_permittivity.T_P", lambda: water_permittivity(323.15, 100.0), None, _bradley_pitzer_f(323.15, 100.0), 1e-12),
        ("water_permittivity.T_P_units", lambda: water_permittivity(323.15 * u.K, 100e5 * u.pascal, u), 1, _bradley_pitzer_f(323.15, 100.0), 1e-9),
        # the acid: handbook density of 50 % acid at 20 degC, 1395.1 kg/m3 (3e-3 as in sulfuric_acid_density.handbook_density_at_20_C)
        ("sulfuric_acid_density.w_T", lambda: sulfuric_acid_density(0.5, 293.15), None, 1395.1, 3e-3),
        ("sulfuric_acid_density.w_T_T0", lambda: sulfuric_acid_density(0.5, 20.0, 0.0), None, 1395.1, 3e-3),
        ("sulfuric_acid_density.w_T_T0_units", lambda: sulfuric_acid_density(0.5, 293.15 * u.K, 273.15 * u.K, u), kgm3, 1395.1, 3e-3),
        ("Henry_H_at_T.T_H_Tderiv_T0", lambda: Henry_H_at_T(310.0, 1.2e-3, 1800.0, 288.15), None, H25, 1e-12),
        ("Henry_H_at_T.T_H_Tderiv_T0_units", lambda: Henry_H_at_T(310.0 * u.K, 1.2e-3 * u.molar / u.atm, 1800.0 * u.K, 288.15 * u.K, u), u.molar / u.atm, H25, 1e-9),
    ]
    got = {}
    for name, thunk, unit, want, rel in cases:
        val, exc, ws = _observe(thunk)
        if exc is None:
            try:
                got[name] = x = float(val) if unit is None else float(to_unitless(val, unit))
                ok, det = abs(x / want - 1) < rel and not ws, repr((x, want, ws[:2]))
            except Exception as ex:
                ok, det = False, repr(ex)[:160]
        else:
            ok, det = False, exc
        v.prove(name, ok, detail=det)
    # degC with T0 = 0 and kelvin with the default T0 are the same temperature: the same density (the handbook band above is wide)
    a, b, c = (got.get("sulfuric_acid_density." + k) for k in ("w_T", "w_T_T0", "w_T_T0_units"))
    v.prove("sulfuric_acid_density.T0_shifts_the_temperature_only", None not in (a, b, c) and abs(b / a - 1) < 1e-12 and abs(c / a - 1) < 1e-12, detail=repr((a, b, c)))


@harness("C19", "temperature_grids", functions=["chempy.properties.water_density_tanaka_2001:water_density", "chempy.properties.water_viscosity_korson_1969:water_viscosity",
                                                "chempy.properties.water_diffusivity_holz_2000:water_self_diffusion_coefficient",
                                                "chempy.properties.water_permittivity_bradley_pitzer_1979:water_permittivity", "chempy.henry:Henry_H_at_T",
                                                "chempy.einstein_smoluchowski:electrical_mobility_from_D"], kind="data")
def _(v):
    """the quantifier 'for all temperatures/pressures/compositions on dense grids over each validity range and just outside it', with the grid handed
    over as ONE array (a row of temperatures, a runs x times matrix, a column, a 0-d array, a temperature x pressure mesh): every element of
    the answer is the value of the published equation at that element (the same as the scalar call), with and without a units object, the answer
    has the shape of the grid, and 'a range warning is emitted when a temperature lies outside the documented validity range and never when all
    inputs lie inside it' reads: iff SOME element lies outside (and warnings are asked for).  Grids keep 0.5 K away from the range limits inside
    and go 1 K beyond outside.  Not stated: water_viscosity with a units object and an array (refused on the pinned tree: 10 ** quantity array);
    pressures beyond their limit on a mesh (the pairing of 'any T' with 'any P', see water_permittivity.range_warning)"""
    import numpy as np
    from chempy.properties.water_density_tanaka_2001 import water_density
    from chempy.properties.water_viscosity_korson_1969 import water_viscosity
    from chempy.properties.water_diffusivity_holz_2000 import water_self_diffusion_coefficient
    from chempy.properties.water_permittivity_bradley_pitzer_1979 import water_permittivity
    from chempy.henry import Henry_H_at_T
    from chempy.einstein_smoluchowski import electrical_mobility_from_D
    from chempy.units import default_units as u, to_unitless

    def check(name, thunk, want, expect_warning, unit=None):
        val, exc, ws = _observe(thunk)
        if exc is not None:
            return v.prove(name, False, detail=exc)
        try:
            arr = np.asarray(val if unit is None else to_unitless(val, unit), dtype=float)
            ok = arr.shape == np.shape(want) and bool(np.allclose(arr, want, rtol=1e-9, atol=0)) and bool(ws) == expect_warning
            det = "shape %r (grid %r), warnings %r, %s expected" % (arr.shape, np.shape(want), ws[:2], "one" if expect_warning else "none")
        except Exception as ex:
            ok, det = False, repr(ex)[:160]
        v.prove(name, ok, detail=det)

    def elementwise(f, *grids):
        return np.vectorize(lambda *xs: f(*(float(x) for x in xs)), otypes=[float])(*grids)

    one_argument = [   # name, function, validity range in K, scalar equation, unit of the answer, with a units object too
        ("water_density", water_density, 273.15, 313.15, lambda T: _tanaka_f(T - 273.15), lambda: u.kg / u.m ** 3, True),
        ("water_viscosity", water_viscosity, 273.15, 373.15, lambda T: 1.0020 * _korson_ratio_f(T - 273.15), None, False),
        ("water_self_diffusion_coefficient", water_self_diffusion_coefficient, 273.15, 373.15, _holz_f, lambda: u.m ** 2 / u.s, True),
    ]
    for name, fn, lo, hi, eq, unit, with_units in one_argument:
        row = np.linspace(lo + 0.5, hi - 0.5, 12)
        shapes = [("row", row), ("matrix", row.reshape(3, 4)), ("column", row.reshape(12, 1)), ("zero_d", np.array(lo + 7.0))]
        for sname, T in shapes:
            check("%s.%s.inside" % (name, sname), lambda: fn(T), elementwise(eq, T), False)
            if with_units:
                check("%s.%s.inside_with_units" % (name, sname), lambda: fn(T * u.K, units=u), elementwise(eq, T), False, unit())
        for sname, T in shapes[:3]:
            for where, idx, x in (("above", -1, hi + 1.0), ("below", 0, lo - 1.0)):
                Tout = T.copy()
                Tout.flat[idx if idx == 0 else T.size // 2 + 1] = x       # a single element, first or in the middle of the grid
                check("%s.%s.one_element_%s" % (name, sname, where), lambda: fn(Tout), elementwise(eq, Tout), True)
                check("%s.%s.one_element_%s.warnings_off" % (name, sname, where), lambda: fn(Tout, warn=False), elementwise(eq, Tout), False)
                if with_units:
                    check("%s.%s.one_element_%s.with_units" % (name, sname, where), lambda: fn(Tout * u.K, units=u), elementwise(eq, Tout), True, unit())

    # permittivity: temperature x pressure, 0..350 degC and up to 1000 bar (inside for every temperature)
    Ts, Ps = np.linspace(273.65, 622.65, 8), np.array([1.0, 10.0, 100.0, 1000.0])
    TT, PP = np.meshgrid(Ts, Ps, indexing="ij")
    want = elementwise(_bradley_pitzer_f, TT, PP)
    check("water_permittivity.broadcast.inside", lambda: water_permittivity(Ts[:, None], Ps[None, :]), want, False)
    check("water_permittivity.mesh.inside", lambda: water_permittivity(TT, PP), want, False)
    check("water_permittivity.mesh.inside_with_units", lambda: water_permittivity(TT * u.K, PP * 1e5 * u.pascal, units=u), want, False, 1)
    check("water_permittivity.mesh_of_temperatures_one_pressure", lambda: water_permittivity(TT, 100.0), elementwise(_bradley_pitzer_f, TT, 100.0), False)
    check("water_permittivity.row_with_units_one_pressure", lambda: water_permittivity(Ts * u.K, 100 * u.bar, units=u), elementwise(_bradley_pitzer_f, Ts, 100.0), False, 1)
    for where, idx, x in (("above", TT.size // 2 + 1, 624.15), ("below", 0, 272.15)):
        Tout = TT.copy()
        Tout.flat[idx] = x
        wout = elementwise(_bradley_pitzer_f, Tout, PP)
        check("water_permittivity.mesh.one_temperature_%s" % where, lambda: water_permittivity(Tout, PP), wout, True)
        check("water_permittivity.mesh.one_temperature_%s.warnings_off" % where, lambda: water_permittivity(Tout, PP, warn=False), wout, False)
        check("water_permittivity.mesh.one_temperature_%s.with_units" % where, lambda: water_permittivity(Tout * u.K, PP * 1e5 * u.pascal, units=u), wout, True, 1)
    Phot = PP.copy()
    Phot[-1, -1] = 2500.0                                          # 349.5 degC and 2500 bar in the same element: beyond 2000 bar above 70 degC
    check("water_permittivity.mesh.one_hot_element_above_2000bar", lambda: water_permittivity(TT, Phot), elementwise(_bradley_pitzer_f, TT, Phot), True)

    # the closed-form relations have no range; a matrix of temperatures gives the matrix of values
    Tm = np.linspace(278.15, 318.15, 6).reshape(2, 3)
    wantH = elementwise(lambda T: 1.2e-3 * math.exp(1800.0 * (1 / T - 1 / 298.15)), Tm)
    check("Henry_H_at_T.matrix", lambda: Henry_H_at_T(Tm, 1.2e-3, 1800.0), wantH, False)
    check("Henry_H_at_T.matrix_with_units", lambda: Henry_H_at_T(Tm * u.K, 1.2e-3 * u.molar / u.atm, 1800.0 * u.K, units=u), wantH, False, u.molar / u.atm)
    wantM = elementwise(lambda T: 2.3e-9 * 1.60217662e-19 / (1.38064852e-23 * T), Tm)
    check("electrical_mobility_from_D.matrix", lambda: electrical_mobility_from_D(2.3e-9, 1, Tm), wantM, False)
    check("electrical_mobility_from_D.matrix_with_units", lambda: electrical_mobility_from_D(2.3e-5 * u.cm ** 2 / u.s, 1, Tm * u.K, None, u), wantM, False, u.m ** 2 / u.volt / u.s)
